"""Rewrite the kill-matrix paragraph of DESIGN.md (section 7.1) from selftest/kill_matrix.json."""
import glob, json, os, sys
HERE = os.path.dirname(os.path.dirname(os.path.abspath(__file__)))
sys.path.insert(0, os.path.join(HERE, "selftest"))
import mutants
d = json.load(open(os.path.join(HERE, "selftest", "kill_matrix.json")))
ms = d["mutants"]
nrev = len(glob.glob(os.path.join(HERE, "selftest", "mutants", "*.diff"))) + sum(1 for n in mutants.M if n.startswith("rev-"))
per = {}
for m in ms:
    if m["status"] == "killed":
        for p in m["owners"]:
            per[p] = per.get(p, 0) + 1
suite = sum(1 for m in ms if m["status"] == "caught-by-suite")
killed = sum(1 for m in ms if m["status"] == "killed")
other = [m["name"] + " (" + m["status"] + ")" for m in ms if m["status"] not in ("killed", "caught-by-suite")]
text = ("Last full run (`selftest/kill_matrix.json`, quick tier, %d s): %d seeded faults (%d text edits, %d of them hand-written reversals of fix "
        "commits, + %d reversal diffs). %d are caught by the repository's own 85 tests and therefore do not count; of the remaining %d, **%d are killed**: the "
        "quick check of *every* owning property exits 1 (kills per property: %s)%s. %d further edits were found to be equivalent with respect to the "
        "statements and are listed with the reason in `selftest/mutants.py` (`EQUIVALENT`).\n"
        % (d["wall_s"], len(ms), len(mutants.M), sum(1 for n in mutants.M if n.startswith("rev-")), len(ms) - len(mutants.M), suite, len(ms) - suite, killed,
           ", ".join("%s %d" % (p, per[p]) for p in sorted(per)),
           ("; not killed: " + ", ".join(other)) if other else "", len(mutants.EQUIVALENT)))
p = os.path.join(HERE, "DESIGN.md")
s = open(p).read()
a = s.index("<!-- KILL-MATRIX -->") + len("<!-- KILL-MATRIX -->\n")
b = s.index("<!-- /KILL-MATRIX -->")
s = s[:a] + text + s[b:]
open(p, "w").write(s)
print(text)
