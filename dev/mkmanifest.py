"""Regenerate /verif/MANIFEST.json from the registered plans."""
import json
import glob as _glob
import os as _os
_HERE = _os.path.dirname(_os.path.dirname(_os.path.abspath(__file__)))
_kf = json.load(open(_os.path.join(_HERE, 'known_findings.json')))
_nseeds = len(_glob.glob(_os.path.join(_HERE, 'seeded', 'S*', 'meta.json')))
import os
import sys

sys.path.insert(0, "/verif/lib")
os.environ.setdefault("PYTHONHASHSEED", "0")

TEXT = {
 "C01": ("exploration", "3.C01", "reference-free round-trip oracle + runtime contracts on the six primitive codecs; exhaustive primitive domains, boundary-class packets",
         "Round trip decode(encode(x)) == x is observed on the real encoder/decoder for every 16-bit integer, every Unicode scalar value, the complete remaining-length domain (thorough) and boundary-class packets of all 14 types; a sampled exploration beyond the enumerated finite domains."),
 "C02": ("exploration", "3.C02", "differential against an independent reference codec written from the OASIS text, on generated packets and on every byte written in live sessions",
         "Every generated packet is compared byte for byte with the reference encoding (both protocol levels) and every packet written during session workloads is re-derived from the API arguments with the reference encoder; unrepresentable inputs must raise ValueError/TypeError."),
 "C03": ("exploration", "3.C03", "differential monitor: same byte stream under two chunkings must give identical observation logs",
         "All 2^(n-1) compositions of short broker streams and all 1/2/3-cut placements, header cuts, byte-at-a-time and random compositions of long ones are fed to the real protocol; the ordered log of callbacks, Deferred outcomes, writes, close calls and the final timer table must equal that of one-packet-per-chunk delivery. Long streams also get a cut at every place a naive reading of the length bytes would take for a packet end and all single cuts up to 1200 bytes; timed families deliver the chunks 1-30 s apart with the keepalive tick, the PINGRESP deadline and retry timers firing in between (baseline: each packet whole at the instant its last byte arrives)."),
 "C04": ("exploration", "3.C04", "trace monitor over the boundary history (connect automaton, loss notification counter) on a virtual reactor",
         "Exhaustive handshake matrix (all 256 return codes x profiles x versions x keepalive x transports) plus all short orderings of CONNACK/timeout/loss/second connect() (after a refusal, on a lost protocol, from the errback of a refusal), the CONNACK deadline probed for keepalive 0..65535, refused connect() calls followed by ordinary use, re-entrant session ends and seeded walks; each connect() Deferred and each loss notification is counted and timed on virtual time."),
 "C05": ("exploration", "3.C05", "trace monitor: per-publish automaton keyed by unique payload token, Deferred fire taps",
         "Every publish Deferred of every history is matched against the acknowledgements actually delivered; the final acknowledgement a pending exchange waits for must complete it in that very step; small-scope sweep to depth 4/5 plus seeded walks with duplicated, late, stray, cross-type and out-of-order acknowledgements, re-entrant applications (publishing, chaining and disconnecting from callbacks), blocked-reactor steps and long runs."),
 "C06": ("exploration", "3.C06", "trace monitor: per-step prompt/acknowledgement counting and per-identifier QoS 2 exchange automaton across reconnects",
         "Every inbound PUBLISH/PUBREL of every history is matched with the onPublish calls and acknowledgements observed in the same step; exactly-once is counted per exchange across persistent reconnects; up to 70 (thorough 300) exchanges open at once."),
 "C07": ("exploration", "3.C07", "trace monitor: boundary-derived pending sets per kind, window oracle, end phase with an answering broker",
         "Each subscribe/unsubscribe call is judged against the number of requests pending on its connection and the window in force; completions are matched to the SUBACK/UNSUBACK delivered; the end phase proves nothing stays pending and the window is free again."),
 "C08": ("exploration", "3.C08", "trace monitor over virtual-time transmissions; each packet's own retry timer is identified through the reactor's delayed-call table",
         "For all four retransmittable kinds, both protocol levels and a matrix of timeouts/bandwidths/factors/sizes/jitter policies, every expiry of a packet's timer must be followed by its retransmission with the right DUP flag and identical content, never earlier than the initial timeout configured when first sent (also when the timeout changes in between); raw PUBLISH gaps must never shrink; 40 (thorough 120) consecutive expiries per kind."),
 "C09": ("exploration", "3.C09", "trace monitor: per-exchange automaton PUBLISH+ -> PUBREC -> PUBREL+ -> PUBCOMP across connections",
         "Every QoS 2 exchange of every history (sweeps to depth 4/5 with expiries, duplicates, early PUBCOMP and persistent/clean reconnects; seeded walks) is replayed through the sender-side automaton."),
 "C10": ("exploration", "3.C10", "trace monitor: in-flight set and call-order index from the boundary, invariant evaluated after every step",
         "Window bound and FIFO are checked at every first transmission, never-rejected at every publish(), and the no-strand invariant after every single step of every history."),
 "C11": ("fault_enumeration", "3.C11", "crash-point sweep + trace monitor: pending set at the loss step versus Deferred fires; attribution of every packet on the next connection",
         "Connection loss of five kinds is injected at every prefix of every base history on both transport models, followed by a fresh protocol and more traffic; every pending Deferred must fail exactly once with the loss reason inside the loss step, and nothing of the old connection may appear on the next."),
 "C12": ("fault_enumeration", "3.C12", "crash-point sweep + trace monitor: expected resume set computed from the boundary history of earlier connections",
         "Loss is injected at every prefix of persistent-session base histories, up to three losses in a row, followed by persistent or clean reconnects with publishes before and after CONNACK; the packets written in the CONNACK step are compared with the expected resume set (content, DUP, order), and purges with the expected failures."),
 "C13": ("exploration", "3.C13", "environment monitor: the reactor's delayed-call table is compared with the boundary state after every step and after a long drain",
         "The number of pending delayed calls is bounded above and below by what the boundary history explains (outstanding packets, keepalive, CONNACK timeout, undelivered notifications) after every step of every history, and must be empty after 6000 s of virtual time following the last loss; writes are checked against settled requests and reported losses."),
 "C14": ("exploration", "3.C14", "trace monitor: allowed-operation matrix transcribed from the statement, effects of foreign packets compared step-wise",
         "The full matrix profile x state x operation and profile x state x broker packet is enumerated on both transports (with and without pending requests) and re-probed inside seeded walks and re-entrant callbacks."),
 "C15": ("exploration", "3.C15", "trace monitor on virtual time: PINGREQ gaps, deadline aborts, silence with keepalive 0 and after loss",
         "Keepalive matrix (k up to 65535, PINGRESP at every characteristic offset, runs of up to 200 periods, will/user/password options, connect again after a refusal) on both transports and all profiles plus seeded walks; k is the argument of connect()."),
 "C16": ("exploration", "3.C16", "escaped-exception traps on every entry point + entitlement monitor fed by the strict reference decoder",
         "All short byte strings over a reduced alphabet, all single-byte mutations/truncations/extensions of valid packets, every flag nibble of every valid packet, every first byte with short bodies and random streams are injected into 16 contexts (profiles x states with requests pending, identifiers small, around 256 and around 0x4000); no exception may escape, every delivery/success must be entitled by a well-formed packet, also when it comes later (PUBLISH-shaped blobs are followed by a well-formed PUBREL for their identifier)."),
 "C17": ("exploration", "3.C17", "trace monitor: set of identifiers of unfinished Deferreds per factory at every API return; range check on every write",
         "All histories, plus identifier-counter placements at 65526..65535 with requests of every kind unfinished, blocks of 20-70 consecutive unfinished identifiers behind the wrap point, re-entrant session ends with the counter placed just before the dying identifiers, two-address walks and (thorough) a walk that wraps on its own."),
 "C18": ("exploration", "3.C18", "streaming parse of each transport's output by the strict reference decoder, tagged with the transport phase",
         "Every connection of every history is parsed as a client packet stream (CONNECT first and once, no broker-only types, DISCONNECT only from disconnect() with close, nothing after it, nothing after the loss report), including API calls and expiries in the closing interval of a TCP-like transport."),
 "C19": ("exploration", "3.C19", "differential monitor: per-address logs of a two-address history versus the same history with the other address's steps deleted",
         "Every interleaving of two short per-address scripts and seeded two-address walks are run three times (both, A alone, B alone); canonical per-address logs (identifiers renamed by rank) with virtual timestamps must be identical."),
 "C20": ("exploration", "3.C20", "expectation table from the statement + differential atomicity check (twin history without the refused call)",
         "Each argument of each entry point is driven over its boundary values, wrong types and None in every state/profile where the call is allowed; refusals must be ValueError/TypeError and leave no trace (no write, timer table and state unchanged, rest of the history identical to the twin)."),
}

NOTE = ("Trusted base: the rig in lib/mqttverif (virtual reactor, two transport models, shadow broker), the reference codec, Python 3.12/Twisted 26.4 of /venv. "
        "Holds only on the histories actually executed; evidence lists what the monitor observed.")


def main():
    from mqttverif import plans
    plans.get("C04")
    checks = []
    for pid in sorted(TEXT):
        if pid not in plans._REG:
            continue
        cat, ref, tech, text = TEXT[pid]
        plan = plans._REG[pid]
        assert plan.level == cat, (pid, plan.level, cat)
        checks.append({
            "property_id": pid,
            "quick_cmd": "bin/check %s --tier quick" % pid,
            "thorough_cmd": "bin/check %s --tier thorough" % pid,
            "evidence_file": "evidence/%s.json" % pid,
            "replay_cmd_template": "bin/check %s --replay {path}" % pid,
            "engine": "mqttverif",
            "level_claimed": {"category": cat, "text": text, "design_ref": "DESIGN.md section " + ref},
            "level_note": NOTE,
            "technique": "runtime monitoring: " + tech,
        })
    na = [{"property_id": pid, "reason": "check not built yet"} for pid in sorted(TEXT) if pid not in plans._REG]
    m = {
        "version": 1,
        "setup_cmd": "/venv/bin/pip install --no-index --find-links /opt/veriftools/wheels --target /verif/.deps icontract >/dev/null 2>&1 || echo 'icontract not installable: the codec contracts fall back to a plain wrapper'",
        "hooks": {
            "guard": "TWISTED_MQTT_VERIF",
            "enable": "no source hooks: all observation happens at the library boundary (virtual reactor installed before import, transports, Deferred taps); bin/check exports TWISTED_MQTT_VERIF=1 for uniformity",
            "baseline_off_cmd": "cd /repo && /venv/bin/python -m pytest -ra -q -p no:cacheprovider --timeout=900 --continue-on-collection-errors",
            "source_commits": [],
            "add_only": True,
        },
        "engines": [{"name": "mqttverif", "path": "lib/mqttverif", "serves_properties": [c["property_id"] for c in checks],
                     "kind_free_text": "runtime monitors over boundary traces of the real code on a virtual reactor; reference codec; differential and crash-point workloads"}],
        "checks": checks,
        "not_applicable": na,
        "notes": ("bin/check <id> [--tier quick|thorough] [--seed N] (VERIF_SEED / VERIF_TIER honoured). Exit 0 held, 1 VIOLATION, 2 INCONCLUSIVE, 3 rig error. "
                  "Known findings: known_findings.json (%d open; %d entries of %d repaired defects listed as fixed: they suppress nothing). "
                  "Independent seeded changes: seeded/S01..S%d (all caught, see DESIGN.md 7.2). Self-test: selftest/full_selftest.sh = seed sweep, "
                  "selftest/run_mutants.py (seeded faults and reversals of the fix commits; --refactors for behaviour-preserving and allowed-alternative "
                  "implementations, mine and independent agents', that must stay silent), selftest/run_seeded.py, selftest/known_findings_selftest.py."
                  % (len(_kf["open"]), len(_kf["fixed"]), len(set(x.split()[2] for x in _kf["fixed"])), _nseeds)),
    }
    with open("/verif/MANIFEST.json", "w") as f:
        json.dump(m, f, indent=1)
    print("wrote MANIFEST.json with", len(checks), "checks;", len(na), "not yet claimed")


if __name__ == "__main__":
    main()
