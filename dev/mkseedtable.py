"""Regenerate the table of independent seeded changes in DESIGN.md (section 7.2) from seeded/*/meta.json."""
import glob
import json
import os
import re

HERE = os.path.dirname(os.path.dirname(os.path.abspath(__file__)))
rows = []
metas = sorted((json.load(open(p)) for p in glob.glob(os.path.join(HERE, "seeded", "S*", "meta.json"))), key=lambda m: int(m["id"][1:]))
for m in metas:
    rows.append("| %s | %s | %s | %s | %s |" % (m["id"], m["property"], m["needs_to_manifest"].replace("|", "/"), ", ".join(m["caught_by"]),
                                               m.get("status", "").replace("|", "/").replace("MISSED at first:", "**missed at first** —")))
path = os.path.join(HERE, "DESIGN.md")
s = open(path).read()
head = "| id | property | what it needs to manifest | caught by | status |\n|---|---|---|---|---|\n"
a = s.index(head) + len(head)
b = s.index("\n### 7.3", a)
s = s[:a] + "\n".join(rows) + "\n" + s[b:]
open(path, "w").write(s)
missed = sum(1 for m in metas if "missed at first" in m.get("status", "").lower())
print(len(metas), "changes,", missed, "missed at first")
