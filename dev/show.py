import sys, random
sys.path.insert(0, '/verif/lib')
from mqttverif.world import World, Cfg
from mqttverif import gen
seed0 = int(sys.argv[1]); k = int(sys.argv[2])
lo = int(sys.argv[3]) if len(sys.argv) > 3 else 0
hi = int(sys.argv[4]) if len(sys.argv) > 4 else 10**9
rng = random.Random(seed0 * 100003 + k)
cfg = gen.random_cfg(rng)
w = World(cfg)
wk = gen.Walker(rng, rng.choice(list(gen.FLAVOURS)))
wk.walk(w, rng.choice([10, 25, 60]))
w.finish()
print({k: v for k, v in cfg.asdict().items()})
for e in w.trace:
    if not (lo <= e['step'] <= hi): continue
    k = e['k']
    if k == 'step': print("---- step %d t=%.3f %r" % (e['step'], e['t'], e['s']))
    elif k == 'snap': print("      snap", [(round(t,3), n.split('.')[-1]) for t, n, _ in e['calls']], e['states'])
    elif k == 'write': pass
    elif k == 'pkt': print("   >> c%d %s %s dup=%s id=%s tok=%s ph=%s tseq=%s%s" % (e['conn'], e['pkt']['t'] if e['pkt'] else None, '', e['pkt'].get('dup') if e['pkt'] else '', e['pkt'].get('id') if e['pkt'] else '', None, e['phase'], e.get('tseq'), (' BAD '+e['bad']) if e['bad'] else ''))
    elif k == 'in': print("   << c%d %r" % (e['conn'], [ (p.get('t'), p.get('id'), p.get('rc')) if 't' in p else p for p in e['pkts']]))
    elif k == 'api': print("   api c%d %s %s state=%s ph=%s d=%d" % (e['conn'], e['op'], {x: y for x, y in e['info'].items() if x in ('token','qos','tokens','clean','keepalive','level','n','t','shape')}, e['state'], e['phase'], e['depth']))
    elif k == 'api_ret': print("      ret", {x: y for x, y in e.items() if x in ('did','msgId','called','raised','ret')})
    elif k == 'fire': print("   FIRE did=%d ok=%s %s" % (e['did'], e['ok'], e.get('etype') or e.get('value')))
    elif k == 'fire_attempt':
        if e['already']: print("   FIRE-ATTEMPT-ALREADY did=%d" % e['did'])
    else: print("   ", {x: y for x, y in e.items() if x not in ('i','step','cause')})
