import sys, random, collections, time, traceback
sys.path.insert(0, '/verif/lib')
from mqttverif.world import World, Cfg
from mqttverif import gen
from mqttverif.analysis import Analysis
from mqttverif.mon import conn, pub, sub, timing, hostile
MON = dict(C04=conn.c04, C05=pub.c05, C06=sub.c06, C07=sub.c07, C08=timing.c08, C09=pub.c09, C10=pub.c10,
           C11=pub.c11, C12=pub.c12, C13=timing.c13, C14=conn.c14, C15=conn.c15, C16=hostile.c16, C17=pub.c17, C18=conn.c18)
n = int(sys.argv[1]); seed0 = int(sys.argv[2]) if len(sys.argv) > 2 else 0
only = sys.argv[3].split(',') if len(sys.argv) > 3 else None
hist = collections.Counter(); first = {}; dec = collections.Counter()
t0 = time.time()
for k in range(n):
    rng = random.Random(seed0 * 100003 + k)
    cfg = gen.random_cfg(rng)
    w = World(cfg)
    wk = gen.Walker(rng, rng.choice(list(gen.FLAVOURS)), stall=(k % 4 == 3))
    wk.walk(w, rng.choice([10, 25, 60]))
    w.finish()
    A = Analysis(w.trace, cfg)
    for name, fn in MON.items():
        if only and name not in only: continue
        if A.stall_total and name in ("C04", "C15"): continue      # exact deadlines: no stalls in their plans
        try:
            v, st = fn(A)
        except Exception:
            print("MONITOR CRASH", name, k); traceback.print_exc(); sys.exit(3)
        dec[name] += st.get('deciding', 0)
        for x in v:
            hist[x.sig] += 1
            if x.sig not in first:
                first[x.sig] = (k, x.msg, x.step, cfg.asdict(), gen.executed_steps(w.trace))
print("time %.1fs" % (time.time() - t0))
for s, c in sorted(hist.items()):
    k, msg, step, cfgd, steps = first[s]
    print("%6d %s\n       k=%d step=%s %s" % (c, s, k, step, msg))
print(dict(dec))
if len(sys.argv) > 4:
    s = sys.argv[4]
    k, msg, step, cfgd, steps = first[s]
    print(cfgd); 
    for i, st in enumerate(steps): print(i, st)
