"""Runtime-monitoring rig for twisted-mqtt (see /verif/DESIGN.md)."""
