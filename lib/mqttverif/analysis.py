"""Indexes over one boundary trace, shared by all session monitors."""
from .world import token_of

RETX = ("PUBLISH", "PUBREL", "SUBSCRIBE", "UNSUBSCRIBE")


class ConnInfo(object):
    def __init__(self, idx, a):
        self.idx, self.a = idx, a
        self.i_build = None
        self.has_ondisc = True
        self.connect_calls = []      # api events
        self.n_connects = 0          # CONNECT packets written (more than one: connect() again after a refusal)
        self.i_connect_write = None  # index of the CONNECT pkt event
        self.t_connect = None
        self.connect_pkt = None
        self.clean = None
        self.level = 4
        self.keepalive = None
        self.i_connack_ok = None     # 'in' event that made the MQTT connection
        self.step_connack_ok = None
        self.t_connack_ok = None
        self.i_refused = None
        self.refusals = []
        self.connects = []
        self.i_connect_accepted = None
        self.i_close_req = None      # first tcall lose/abort
        self.i_lost = None
        self.i_lost_done = None
        self.step_lost = None
        self.pkts = []               # pkt events
        self.writes = []
        self.tcalls = []
        self.ins = []                # 'in' events
        self.prev = None             # previous connection of the same address
        self.next = None

    def up_at(self, i):
        """MQTT connection established and no close requested / loss reported before event i."""
        return (self.i_connack_ok is not None and self.i_connack_ok < i
                and (self.i_close_req is None or i < self.i_close_req)
                and (self.i_lost is None or i < self.i_lost))

    def lost_at(self, i):
        return self.i_lost is not None and self.i_lost <= i


class Req(object):
    def __init__(self, e):
        self.did = e["did"]
        self.op = e["op"]
        self.conn = e["conn"]
        self.msgId = e["msgId"]
        self.called_at_return = e["called"]
        self.i_ret = e["i"]
        self.i_call = e["call"]
        self.step = e["step"]
        self.info = None
        self.a = None
        self.state = None
        self.phase = None
        self.depth = 0
        self.fires = []          # fire events
        self.attempts = []       # fire_attempt events
        self.tx = []             # pkt events carrying this request
        self.writes_in_call = [] # pkt events written inside the api call

    @property
    def first_fire(self):
        return self.fires[0] if self.fires else None

    def fired_before(self, i):
        return bool(self.fires) and self.fires[0]["i"] < i

    def ok(self):
        return bool(self.fires) and self.fires[0]["ok"]

    def failed(self):
        return bool(self.fires) and not self.fires[0]["ok"]

    def accepted(self):
        """The call was taken on: an unfired Deferred, or (QoS 0) an immediate success."""
        if not self.called_at_return:
            return True
        return self.ok()

    def token(self):
        if self.op == "publish":
            return self.info.get("token")
        if self.op in ("subscribe", "unsubscribe") and self.info.get("tokens"):
            return self.info["tokens"][0]
        return None


class Analysis(object):

    def __init__(self, trace, cfg):
        self.trace = trace
        self.cfg = cfg
        self.conns = {}
        self.reqs = {}
        self.calls = {}          # api event index -> api event
        self.rets = {}           # api event index -> api_ret event
        self.steps = []          # (step event, [events])
        self.snaps = {}          # step no -> snap event
        self.by_token = {}       # token -> Req
        self.excs = []
        self.cbs = []
        self.pkts = []
        self.i_end_begin = None
        self.stall_total = 0.0       # seconds the reactor was blocked (schedule dimension)
        self.i_endmark = None
        self.end = None
        self._index()

    def conn(self, idx, a=None):
        c = self.conns.get(idx)
        if c is None:
            c = self.conns[idx] = ConnInfo(idx, a)
        return c

    def _index(self):
        last_of_addr = {}
        cur_step = None
        for e in self.trace:
            k = e["k"]
            if k == "step":
                cur_step = (e, [])
                self.steps.append(cur_step)
                if e["s"][0] == "endmark":
                    self.i_endmark = e["i"]
                continue
            if cur_step is not None:
                cur_step[1].append(e)
            if k == "build":
                c = self.conn(e["conn"], e["a"])
                c.i_build = e["i"]
                c.has_ondisc = e.get("ondisc", bool(self.cfg.ondisc))
                p = last_of_addr.get(e["a"])
                if p is not None:
                    c.prev = p
                    p.next = c
                last_of_addr[e["a"]] = c
            elif k == "api":
                self.calls[e["i"]] = e
                if e["op"] == "connect":
                    self.conn(e["conn"]).connect_calls.append(e)
            elif k == "api_ret":
                self.rets[e["call"]] = e
                if "did" in e:
                    r = Req(e)
                    call = self.calls[e["call"]]
                    r.info, r.a, r.state, r.phase, r.depth = (call["info"], call["a"], call["state"],
                                                              call["phase"], call["depth"])
                    self.reqs[r.did] = r
                    if r.op == "publish":
                        self.by_token[r.info["token"]] = r
                    elif r.op in ("subscribe", "unsubscribe") and not r.info.get("raw"):
                        for t in r.info["tokens"]:
                            self.by_token[t] = r
            elif k == "fire":
                self.reqs[e["did"]].fires.append(e)
            elif k == "fire_attempt":
                if e["did"] in self.reqs:
                    self.reqs[e["did"]].attempts.append(e)
                else:   # fired inside the API call, before the Deferred was returned
                    pass
            elif k == "write":
                self.conn(e["conn"]).writes.append(e)
            elif k == "pkt":
                c = self.conn(e["conn"])
                c.pkts.append(e)
                self.pkts.append(e)
                p = e["pkt"]
                if p is not None and p["t"] == "CONNECT":
                    c.n_connects += 1
                if p is not None and p["t"] == "CONNECT" and c.i_connect_write is None:
                    c.i_connect_write = e["i"]
                    c.t_connect = e["t"]
                    c.connect_pkt = p
                    c.clean = p["clean"]
                    c.level = p.get("level", 4)
                    c.keepalive = p["keepalive"]
            elif k == "in":
                c = self.conn(e["conn"])
                c.ins.append(e)
            elif k == "tcall":
                c = self.conn(e["conn"])
                c.tcalls.append(e)
                if c.i_close_req is None:
                    c.i_close_req = e["i"]
            elif k == "lost":
                c = self.conn(e["conn"])
                c.i_lost = e["i"]
                c.step_lost = e["step"]
                c.lost_ev = e
            elif k == "lost_done":
                self.conn(e["conn"]).i_lost_done = e["i"]
            elif k == "snap":
                self.snaps[e["step"]] = e
            elif k == "stall":
                self.stall_total += e["dt"]
            elif k == "exc":
                self.excs.append(e)
            elif k == "cb":
                self.cbs.append(e)
            elif k == "end_begin":
                self.i_end_begin = e["i"]
            elif k == "end":
                self.end = e
        # CONNACK acceptance, from the boundary: each CONNECT written is answered by the first
        # CONNACK delivered completely afterwards.  A refusal leaves the protocol idle on an
        # open transport, where connect() may be called again; the first acceptance makes the
        # MQTT connection.
        for c in self.conns.values():
            connects = [e for e in c.pkts if e["pkt"] is not None and e["pkt"]["t"] == "CONNECT"]
            c.connects = connects
            k = 0                      # index of the CONNECT awaiting its answer
            for e in c.ins:
                if k >= len(connects) or e["i"] < connects[k]["i"]:
                    continue
                if e.get("raw"):
                    pk = [x["pkt"] for x in e["pkts"] if x["pkt"] is not None and x["bad"] is None]
                else:
                    pk = e["pkts"]
                acks = [p for p in pk if p["t"] == "CONNACK"]
                if not acks:
                    continue
                p = acks[0]
                if not self._completed(e, c):
                    break              # the handshake blew up: nothing defined afterwards
                # a later CONNECT written before this CONNACK supersedes the earlier one
                while k + 1 < len(connects) and connects[k + 1]["i"] < e["i"]:
                    k += 1
                if p["rc"] == 0:
                    c.i_connack_ok = e["i"]
                    c.step_connack_ok = e["step"]
                    c.t_connack_ok = e["t"]
                    c.sp = p["session"]
                    cp = connects[k]["pkt"]
                    c.clean, c.level, c.keepalive = cp["clean"], cp.get("level", 4), cp["keepalive"]
                    # the keepalive the application asked for (what C13/C15 go by), when the call is known
                    call = self.calls.get(connects[k].get("api"))
                    if call is not None and isinstance(call["info"].get("keepalive"), int) and not call["info"].get("raw"):
                        c.keepalive = call["info"]["keepalive"]
                    c.i_connect_accepted = connects[k]["i"]
                    break
                if c.i_refused is None:
                    c.i_refused = e["i"]
                    c.rc = p["rc"]
                c.refusals.append(e["i"])
                k += 1
        # attach transmissions to requests
        for e in self.pkts:
            p = e["pkt"]
            if p is None:
                continue
            tok = None
            if p["t"] == "PUBLISH":
                tok = token_of(p["payload"])
            elif p["t"] in ("SUBSCRIBE", "UNSUBSCRIBE") and p["topics"]:
                for t0 in p["topics"]:       # (the token is in the first filter of the call; wherever it ended up in the packet)
                    tok = token_of(t0[0] if isinstance(t0, tuple) else t0)
                    if tok is not None:
                        break
            e["token"] = tok
            if tok is not None and tok in self.by_token:
                self.by_token[tok].tx.append(e)
            if e.get("api") is not None:
                ret = self.rets.get(e["api"])
                if ret is not None and "did" in ret:
                    self.reqs[ret["did"]].writes_in_call.append(e)

    def _completed(self, in_ev, c):
        """dataReceived for this inbound event returned normally."""
        for x in self.excs:
            if x["step"] == in_ev["step"] and x["where"] == "dataReceived" and x.get("conn") == c.idx:
                return False
        return True

    # ---- helpers over steps

    def step_events(self, step_no):
        return self.steps[step_no][1]

    def inbound_pkts(self, in_ev):
        """Well-formed packets the rig delivered in an 'in' event."""
        if in_ev.get("raw"):
            return [x["pkt"] for x in in_ev["pkts"] if x["pkt"] is not None and x["tier"] != "structural"]
        return list(in_ev["pkts"])

    def calls_sig(self, step_no):
        s = self.snaps.get(step_no)
        return None if s is None else tuple(sorted(s["calls"]))
