"""Case abstraction shared by all checks.

A *case* is one unit of work a shard executes: a session history (cfg +
steps, or cfg + a seeded walker), a differential pair, or a batch of codec
inputs.  Running it yields a CaseResult the parent process merges."""
import hashlib
import json
import random

from . import gen
from .analysis import Analysis
from .world import World, Cfg


def jsonable(x):
    if isinstance(x, (bytes, bytearray)):
        return {"__b": bytes(x).hex()}
    if isinstance(x, tuple):
        return {"__t": [jsonable(y) for y in x]}
    if isinstance(x, list):
        return [jsonable(y) for y in x]
    if isinstance(x, dict):
        return {str(k): jsonable(v) for k, v in x.items()}
    if isinstance(x, float) and x != x:
        return None
    return x


def readable(x):
    """Like jsonable, for human readers (evidence samples): tuples become lists, bytes hex strings."""
    if isinstance(x, (bytes, bytearray)):
        return "hex:" + bytes(x).hex()
    if isinstance(x, (tuple, list)):
        return [readable(y) for y in x]
    if isinstance(x, dict):
        return {str(k): readable(v) for k, v in x.items()}
    return x


def unjson(x):
    if isinstance(x, dict):
        if "__b" in x and len(x) == 1:
            return bytes.fromhex(x["__b"])
        if "__t" in x and len(x) == 1:
            return tuple(unjson(y) for y in x["__t"])
        return {k: unjson(v) for k, v in x.items()}
    if isinstance(x, list):
        return [unjson(y) for y in x]
    return x


def digest(obj):
    return hashlib.blake2b(json.dumps(jsonable(obj), sort_keys=True).encode(), digest_size=8).hexdigest()


class CaseResult(object):
    __slots__ = ("violations", "stats", "evals", "keys", "sample", "replay")

    def __init__(self):
        self.violations = []      # [(sig, msg, step)]
        self.stats = {}
        self.evals = 0
        self.keys = []            # digests of distinct non-trivial cases
        self.sample = None
        self.replay = None        # json-able description that re-runs the case


class SessionCase(object):
    """One history.  Either explicit steps, or a seeded online walk."""

    def __init__(self, family, cfg, steps=None, walk=None, finish=True, monitors=None):
        self.family = family
        self.cfg = cfg
        self.steps = steps
        self.walk = walk          # dict(seed, flavour, n, addrs, persistent, keepalive, level, maxwin, prefix)
        self.finish = finish

    def execute(self):
        w = World(self.cfg)
        if self.steps is not None:
            for s in self.steps:
                w.step(s)
        if self.walk is not None:
            wk = self.walk
            rng = random.Random(wk["seed"])
            walker = gen.Walker(rng, wk.get("flavour", "mixed"), tuple(wk.get("addrs", (0,))),
                                wk.get("persistent"), wk.get("keepalive"), wk.get("level"),
                                wk.get("maxwin", 16), stall=wk.get("stall", False))
            walker.walk(w, wk["n"])
        if self.finish:
            w.finish()
        return w

    def run(self, monitor):
        w = self.execute()
        A = Analysis(w.trace, self.cfg)
        v, st = monitor(A)
        r = CaseResult()
        r.evals = 1
        r.violations = [(x.sig, x.msg, x.step) for x in v]
        r.stats = st
        steps = gen.executed_steps(w.trace)
        desc = {"kind": "session", "family": self.family, "cfg": self.cfg.asdict(), "steps": steps}
        if st.get("deciding", 0) > 0:
            r.keys = [digest([self.cfg.asdict(), steps])]
        r.replay = desc
        r.sample = desc
        return r


def session_from_replay(d):
    cfg = Cfg(**{k: v for k, v in d["cfg"].items()})
    steps = [tuple(s) if not isinstance(s, tuple) else s for s in d["steps"]]
    return SessionCase(d.get("family", "replay"), cfg, steps=steps)
