"""Command line of the checks."""
import argparse
import os
import sys


def main(argv=None):
    ap = argparse.ArgumentParser(prog="check")
    ap.add_argument("prop")
    ap.add_argument("--tier", default=os.environ.get("VERIF_TIER", "quick"), choices=["quick", "thorough"])
    ap.add_argument("--seed", type=int, default=int(os.environ.get("VERIF_SEED", "0") or 0))
    ap.add_argument("--replay")
    a = ap.parse_args(argv)
    from . import runner
    if a.replay:
        return runner.replay(a.prop, a.replay)
    return runner.run_check(a.prop, a.tier, a.seed)


if __name__ == "__main__":
    try:
        rc = main()
    except SystemExit:
        raise
    except BaseException:
        import traceback
        traceback.print_exc()
        print("RIG-ERROR: the check itself failed; this is not a verdict about the property")
        rc = 3
    sys.exit(rc)
