"""Twisted-side environment of the rig.

Must be imported (and `install()` called) before anything imports `mqtt`:
`mqtt.client.base` binds `reactor.callLater` at class-creation time and
`task.LoopingCall` picks the global reactor as its clock, so installing a
virtual reactor first puts every timer of the library on virtual time without
touching the repository.
"""
import math
import os
import sys
import random as _stdrandom

REPO_SRC = os.environ.get("VERIF_REPO_SRC", "/repo/src")

_installed = None


class Escaped(object):
    """An exception that left library code through an entry point."""
    __slots__ = ("where", "exc")

    def __init__(self, where, exc):
        self.where = where
        self.exc = exc


def _make_reactor():
    from twisted.internet.testing import MemoryReactorClock

    class VReactor(MemoryReactorClock):
        """Virtual reactor: fires exactly one delayed call at a time, at
        exactly its due time, and survives exceptions like a real reactor
        (which logs them and carries on)."""

        def __init__(self):
            MemoryReactorClock.__init__(self)
            self.sink = None       # callable(kind, **kw) of the current world
            self.late = 0.0        # lateness injection (schedule dimension)
            self.created = []      # every delayed call, in creation order
            self.nseq = 0

        GRID = float(1 << 20)

        def callLater(self, delay, callable, *args, **kw):
            # Virtual time lives on a dyadic grid (2**-20 s): sums and differences of
            # times are then exact in floating point.  Without this, exact virtual
            # due times make LoopingCall's modulo arithmetic fire a tick twice within
            # 1e-14 s, which no real reactor (that always fires a little late) does.
            # Rounded UP to the grid (minus float noise): a real reactor may fire late, never early -- code that wakes
            # up, finds its deadline a fraction of a microsecond away and sleeps again must make progress.
            due = math.ceil((self.rightNow + delay) * self.GRID - 1e-6) / self.GRID
            if due < self.rightNow:
                due = self.rightNow
            dc = MemoryReactorClock.callLater(self, due - self.rightNow, callable, *args, **kw)
            self.nseq += 1
            dc.seq = self.nseq
            self.created.append(dc)
            return dc

        def reset(self):
            for c in list(self.calls):
                try:
                    c.cancel()
                except Exception:
                    pass
            self.calls[:] = []
            self.created = []
            self.nseq = 0
            self.rightNow = 0.0
            self.sink = None
            self.late = 0.0

        def pending(self):
            self._sortCalls()
            return list(self.calls)

        def next_time(self):
            self._sortCalls()
            return self.calls[0].getTime() if self.calls else None

        def fire_next(self, limit=None):
            """Fire the earliest pending call (if due no later than `limit`).
            Returns the DelayedCall fired, or None."""
            self._sortCalls()
            if not self.calls:
                return None
            c = self.calls[0]
            due = c.getTime()
            if limit is not None and due > limit:
                return None
            self.calls.pop(0)
            when = due + self.late
            if when > self.rightNow:
                self.rightNow = when
            c.called = 1
            sink = self.sink
            if sink is not None:
                sink("timer", call=c, due=due)
            try:
                c.func(*c.args, **c.kw)
            except Exception as e:   # a real reactor logs and continues
                if sink is not None:
                    sink("exc", where="timer", exc=e, call=c)
            return c

        def set_time(self, t):
            t = round(t * self.GRID) / self.GRID
            if t > self.rightNow:
                self.rightNow = t

    return VReactor()


class JitterSource(object):
    """Replacement for random.random() as seen by mqtt.client.interval."""

    def __init__(self):
        self.policy = "const"
        self.value = 0.5
        self.rng = _stdrandom.Random(0)
        self.draws = []
        self.flip = 0

    def reset(self, policy="const", seed=0, value=0.5):
        self.policy = policy
        self.value = value
        self.rng = _stdrandom.Random(seed)
        self.draws = []
        self.flip = 0

    def __call__(self):
        if self.policy == "const":
            v = self.value
        elif self.policy == "uniform":
            v = self.rng.random()
        elif self.policy == "adversarial":   # large, then small: shrinks raw gaps most
            self.flip ^= 1
            v = 0.999 if self.flip else 0.0
        else:
            v = 0.0
        self.draws.append(v)
        return v


class Env(object):
    def __init__(self):
        self.reactor = None
        self.jitter = JitterSource()
        self.fire_sink = None     # callable(deferred, kind) for tapped Deferreds
        self.log_events = []      # captured failure / error log events
        self.unhandled = []


def install():
    """Install the virtual reactor, jitter source, Deferred taps and log
    capture.  Idempotent."""
    global _installed
    if _installed is not None:
        return _installed
    if "twisted.internet.reactor" in sys.modules:
        raise RuntimeError("a reactor is already installed; env.install() must run first")
    if REPO_SRC not in sys.path:
        sys.path.insert(0, REPO_SRC)
    env = Env()
    from twisted.internet import main
    env.reactor = _make_reactor()
    main.installReactor(env.reactor)

    # --- Deferred taps: see every fire *attempt* with the identity of the Deferred
    from twisted.internet import defer
    _cb, _eb = defer.Deferred.callback, defer.Deferred.errback

    def callback(self, result):
        vid = self.__dict__.get("_verif_id")
        if vid is not None and env.fire_sink is not None:
            env.fire_sink(vid, "callback", self.called)
        return _cb(self, result)

    def errback(self, fail=None):
        vid = self.__dict__.get("_verif_id")
        if vid is not None and env.fire_sink is not None:
            env.fire_sink(vid, "errback", self.called)
        return _eb(self, fail)

    defer.Deferred.callback = callback
    defer.Deferred.errback = errback

    # --- LoopingCall swallows what its function raises (it errbacks a Deferred
    # nobody holds); a real exception out of a keepalive tick must be seen.
    from twisted.internet import task
    _lc_call = task.LoopingCall.__call__

    def lc_call(self):
        f = self.f
        if not getattr(f, "_verif_wrapped", False):
            def wrapped(*a, **k):
                try:
                    return f(*a, **k)
                except Exception as e:
                    sink = env.reactor.sink
                    if sink is not None:
                        sink("exc", where="loopingcall", exc=e)
                    raise
            wrapped._verif_wrapped = True
            self.f = wrapped
        return _lc_call(self)

    task.LoopingCall.__call__ = lc_call

    # --- log capture (keeps stderr quiet; "Unhandled error in Deferred" shows up here)
    from twisted.logger import globalLogBeginner, LogLevel

    def observer(event):
        if event.get("log_failure") is not None:
            env.unhandled.append(event)
        elif event.get("log_level") in (LogLevel.critical,):
            env.log_events.append(event)

    globalLogBeginner.beginLoggingTo([observer], redirectStandardIO=False, discardBuffer=True)

    # --- jitter: both Interval classes call random.random() through `import random`
    import mqtt.client.interval as _interval
    import types
    shim = types.ModuleType("random_shim")
    shim.random = env.jitter
    _interval.random = shim

    # sanity: the library's timers must be on the virtual reactor
    from mqtt.client.base import MQTTBaseProtocol
    bound = getattr(MQTTBaseProtocol.callLater, "__self__", None)
    if bound is not env.reactor:
        # a refactor may have changed how callLater is bound; force it (same
        # hook the repository's own tests use)
        MQTTBaseProtocol.callLater = env.reactor.callLater
    _installed = env
    return env


def get():
    return install()
