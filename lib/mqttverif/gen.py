"""Workload generators: seeded online random walks (the generator looks at the
rig's own shadow state to keep histories productive), small-scope sweeps and
crash-point sweeps.  A history is fully described by (cfg, steps): replaying
the step list reproduces it exactly."""
import itertools
import random

from .world import World, Cfg

ACKS = ("PUBACK", "PUBREC", "PUBCOMP", "SUBACK", "UNSUBACK")

# weight tables: step kind -> weight, by flavour
FLAVOURS = {
    "mixed": dict(pub=10, sub=4, unsub=3, ack=14, dupack=2, stray=2, early=1, cross=2, inpub=5, inburst=1, inrel=4,
                  tick=5, adv=3, setwin=2, settimeout=1, setbw=1, lose=2, disconnect=1, pingresp=1,
                  reconnect=6, stale=1, dupconnack=1, ping=1),
    "pubflow": dict(pub=16, ack=16, dupack=3, stray=2, early=2, cross=2, tick=6, adv=2, setwin=3, lose=1,
                    reconnect=5, settimeout=1, setbw=1),
    "subflow": dict(sub=8, unsub=7, ack=10, dupack=2, stray=2, cross=2, inpub=8, inburst=2, inrel=7, tick=4, adv=2,
                    setwin=3, lose=1, reconnect=5),
    "lossy": dict(pub=10, sub=3, unsub=3, ack=8, inpub=3, inrel=2, tick=3, adv=1, setwin=1, lose=6,
                  disconnect=2, reconnect=10, stale=2),
    "timers": dict(pub=6, sub=2, unsub=2, ack=4, tick=14, adv=6, settimeout=2, setbw=2, lose=1,
                   reconnect=4, pingresp=4, inpub=1, ping=2),
}


class Walker(object):

    def __init__(self, rng, flavour="mixed", addrs=(0,), persistent=None, keepalive=None,
                 level=None, maxwin=16, no_tick=False, stall=False):
        self.no_tick = no_tick
        self.stall = stall
        self.rng = rng
        self.w8 = FLAVOURS[flavour]
        self.kinds = list(self.w8)
        self.weights = [self.w8[k] for k in self.kinds]
        self.addrs = addrs
        self.persistent = persistent    # None: per connection random
        self.keepalive = keepalive
        self.level = level
        self.maxwin = maxwin

    def prelude(self, w, a):
        r = self.rng
        steps = [("build", a)]
        if r.random() < 0.5:
            steps.append(("setwin", a, r.choice([1, 1, 2, 3, 4, 8, 16][:max(1, min(7, self.maxwin))])))
        if r.random() < 0.2:
            steps.append(("settimeout", a, r.choice([1, 2, 4, 7, 60, 1024])))
        clean = (r.random() < 0.5) if self.persistent is None else (not self.persistent)
        ka = self.keepalive if self.keepalive is not None else r.choice([0, 0, 0, 5, 60])
        lvl = self.level if self.level is not None else r.choice([3, 4])
        steps.append(("connect", a, clean, ka, lvl))
        if r.random() < 0.25:   # traffic before CONNACK
            steps.append(("pub", a, r.choice([0, 1, 2]), False, 2))
            if r.random() < 0.3:
                steps.append(("preack", a, r.choice(["PUBACK", "PUBREC"])))
        x = r.random()
        if x < 0.06:     # the broker refuses, and closes as it must (now or a little later)
            steps.append(("connack", a, r.choice([1, 2, 3, 4, 5, 128]), False))
            if r.random() < 0.5:
                steps.append(("adv", r.choice([0.5, 6, 30])))
            steps.append(("lose", a, "done"))
        elif x < 0.94:
            steps.append(("connack", a, 0, r.random() < 0.3))
        for s in steps:
            w.step(s)

    def next_step(self, w):
        r = self.rng
        a = r.choice(self.addrs)
        c = w.live.get(a)
        if c is None:
            if r.random() < 0.75:
                self.prelude(w, a)
                return None
            if a in w.cur and r.random() < 0.5:
                return r.choice([("pub", a, r.choice([0, 1, 2])), ("sub", a, "str", 1, 1),
                                 ("unsub", a, "str", 1), ("disconnect", a), ("tick",)])
            return ("tick",)
        k = r.choices(self.kinds, self.weights)[0]
        if k == "pub":
            return ("pub", a, r.choice([0, 1, 1, 2, 2]), r.random() < 0.2, r.choice([0, 1, 5, 200]),
                    r.choice(["plain", "plain", "uni", "same"]), r.choice(["bytearray", "str", "ustr"]))
        if k == "sub":
            return ("sub", a, r.choice(["str", "tuple", "list"]), r.choice([1, 2, 3]), r.choice([0, 1, 2]))
        if k == "unsub":
            return ("unsub", a, r.choice(["str", "list"]), r.choice([1, 2, 3]))
        if k == "ack":
            kinds = [x for x in ACKS if w.outstanding(a, x)]
            if not kinds:
                return ("tick",) if r.random() < 0.3 else None
            kind = r.choice(kinds)
            codes = None
            if kind == "SUBACK" and r.random() < 0.5:
                codes = [r.choice([0, 1, 2, 0x80]) for _ in range(r.choice([0, 1, 2, 3, 5]))]
            return ("ack", a, kind, r.choice(["old", "new", r.randrange(8)]), codes)
        if k == "dupack":
            return ("dupack", a, r.choice(ACKS), r.choice(["old", "new"]))
        if k == "stray":
            return ("stray", a, r.choice(ACKS))
        if k == "early":
            return ("early", a, "PUBCOMP")
        if k == "cross":
            return ("cross", a, r.choice(ACKS))
        if k == "inpub":
            return ("inpub", a, r.choice([0, 1, 2, 2]), r.random() < 0.3, r.random() < 0.3,
                    r.choice(["new", "new", "reuse", "repeat"]), r.choice([0, 2, 300]),
                    r.choice(["plain", "uni"]))
        if k == "inburst":
            if w.cfg.re_disc_on is not None:      # (what follows a disconnect() in the same segment is rightly ignored: not for the per-step oracles)
                return ("inpub", a, 1)
            return ("inburst", a, tuple(r.choice([0, 1, 2]) for _ in range(r.choice([2, 2, 3, 5]))))
        if k == "inrel":
            return ("inrel", a, r.choice(["known", "known", "repeat", "unknown"]), r.random() < 0.3)
        if k == "tick":
            return ("tick",)
        if k == "adv":
            return ("adv", r.choice([0.05, 0.5, 1, 3, 10, 100]))
        if k == "setwin":
            return ("setwin", a, r.randint(1, self.maxwin))
        if k == "settimeout":
            return ("settimeout", a, r.choice([1, 2, 4, 7, 60, 1024]))
        if k == "setbw":
            return ("setbw", a, r.choice([1, 100, 10000, 1000000]), r.choice([1, 1.5, 2, 3]))
        if k == "lose":
            return ("lose", a, r.choice(["done", "lost", "reset"]))
        if k == "disconnect":
            return ("disconnect", a)
        if k == "pingresp":
            return ("pingresp", a)
        if k == "ping":
            if c.connack_ok and c.keepalive:      # (with keepalive 0 a ping()'s deadline is immediate: outside the statements)
                return ("ping", a)
            return ("tick",)
        if k == "dupconnack":
            return ("connack", a, r.choice([0, 0, 2]), r.random() < 0.5)
        if k == "reconnect":
            return None
        if k == "stale":
            return ("pub", a, 1)
        return None

    def walk(self, w, n):
        if self.rng.random() < 0.15:
            w.step(("placeid", self.rng.choice([200, 255, 32766, 65500, 65532, 65533, 65534])))
        for _ in range(n):
            s = self.next_step(w)
            if s is not None:
                if self.no_tick and s[0] == "tick":
                    s = ("adv", 1.5)
                if self.stall and s[0] in ("tick", "adv") and self.rng.random() < 0.25:
                    w.step(("stall", self.rng.choice([0.3, 2.0, 7.0, 70.0, 400.0])))     # the reactor was blocked: timers fire late and bunched
                w.step(s)


def executed_steps(trace):
    """The step list actually executed (without the end phase)."""
    out = []
    for e in trace:
        if e["k"] == "end_begin":
            break
        if e["k"] == "step":
            out.append(e["s"])
    return out


def random_cfg(rng, profile=None, model=None):
    return Cfg(profile=profile or rng.choice(["pubsub", "pubsub", "pub", "sub"]),
               model=model or rng.choice(["sync", "tcp"]),
               close_delay=rng.choice([0.0, 0.0, 0.5, 30.0]),
               jitter=rng.choice(["const", "const", "uniform", "adversarial"]),
               jitter_value=rng.choice([0.0, 0.5, 0.999]),
               seed=rng.randrange(1 << 30),
               ondisc=("alt" if rng.random() < 0.15 else True) if rng.random() < 0.8 else False,
               onconn=rng.random() < 0.3,
               re_pub_on_fail=rng.random() < 0.15,
               re_pub_on_connmade=rng.random() < 0.1,
               re_echo=rng.random() < 0.1,
               re_connect_on_disc=rng.random() < 0.1,
               re_disc_on=rng.choice([None] * 10 + ["ack", "suback", "onpublish", "connmade", "connected", "fail"]),
               late=rng.choice([0.0] * 6 + [0.0078125, 0.25]),
               re_on_refuse=rng.choice([None] * 6 + ["publish", "connect"]),
               re_chain=rng.random() < 0.15)
