"""Monitors: one function per property, each a deterministic oracle over the
boundary trace of one history (via analysis.Analysis).

Each monitor returns (violations, stats):
  violations : list of Violation(prop, sig, msg, step)  -- sig names the
               mechanism (never a hash or a random value)
  stats      : dict of counters; stats['deciding'] is the number of events
               the verdict was actually decided on (0 => this history says
               nothing about the property)
"""
import collections

Violation = collections.namedtuple("Violation", "prop sig msg step")


class Out(object):
    def __init__(self, prop):
        self.prop = prop
        self.v = []
        self.stats = collections.Counter()
        self._seen = set()

    def bad(self, sig, msg, ev=None):
        step = ev["step"] if isinstance(ev, dict) else ev
        key = (sig, step)
        if key in self._seen:
            return
        self._seen.add(key)
        self.v.append(Violation(self.prop, "%s.%s" % (self.prop, sig), msg, step))

    def dec(self, name="deciding", n=1):
        self.stats[name] += n
        if name != "deciding":
            self.stats["deciding"] += n

    def result(self):
        return self.v, dict(self.stats)
