"""C04 (connect handshake / loss notification), C15 (keepalive),
C18 (per-connection output stream), C14 (state/profile gating)."""
from . import Out

PUBCAP = ("pub", "pubsub")
SUBCAP = ("sub", "pubsub")


BIGI = 1 << 60


def _accepted_between(A, c, lo, hi):
    for e in c.ins:
        if lo < e["i"] < hi and A._completed(e, c) and any(p.get("t") == "CONNACK" and p.get("rc") == 0 for p in A.inbound_pkts(e)):
            return True
    return False


def _b(x):
    if x is None:
        return None
    return x.encode("utf-8") if isinstance(x, str) else bytes(x)


def connect_fields_match(pkt, info):
    ex = info.get("extra", {})
    want = {
        "clientId": info["clientId"], "keepalive": info["keepalive"], "clean": bool(info["clean"]),
        "level": info["level"],
        "willTopic": ex.get("willTopic"), "willMessage": _b(ex.get("willMessage")),
        "username": ex.get("username"), "password": _b(ex.get("password")),
    }
    if want["willTopic"] is not None:
        want["willQoS"] = ex.get("willQoS", 0)
        want["willRetain"] = bool(ex.get("willRetain", False))
    for k, v in want.items():
        if pkt.get(k) != v:
            return "%s: wire %r, argument %r" % (k, pkt.get(k), v)
    return None


T_EXACT = float(1 << 32)       # virtual seconds up to which time arithmetic on the 2**-20 s grid is exact in float64


def c04(A):
    o = Out("C04")
    t_end = A.end["t"] if A.end else None
    late = A.cfg.late
    for c in A.conns.values():
        # connect() attempts on this protocol, each with the CONNECT it wrote
        attempts = []
        for call in c.connect_calls:
            ret = A.rets.get(call["i"])
            if ret is None or call["info"].get("invalid") or call["info"].get("raw"):
                continue      # argument-boundary calls: C20's (one that writes nothing leaves the protocol as it was)
            pk = [e for e in c.pkts if e.get("api") == call["i"]]
            attempts.append((call, ret, pk))
        for n, (call, ret, pk) in enumerate(attempts):
            later = [a[0]["i"] for a in attempts[n + 1:] if a[2]]      # later attempts that wrote a CONNECT
            nxt = later[0] if later else BIGI
            prev_connects = [e for e in c.pkts if e["pkt"] is not None and e["pkt"]["t"] == "CONNECT" and e["i"] < call["i"]]
            # idle protocol: never connected, or idle again after a refused CONNACK; transport open
            refused_before = [e for e in c.ins if e["i"] < call["i"] and A._completed(e, c)
                              and any(p.get("t") == "CONNACK" and p.get("rc") for p in A.inbound_pkts(e))]
            idle = (not prev_connects) or (refused_before and prev_connects[-1]["i"] < refused_before[-1]["i"]
                                           and not _accepted_between(A, c, prev_connects[-1]["i"], call["i"]))
            if c.lost_at(call["i"]) and call["phase"] == "lost" and "did" in ret and A.reqs[ret["did"]].called_at_return:
                r0 = A.reqs[ret["did"]]
                busy = False          # an earlier connect() made after the loss and taken on: what it leaves behind on
                                      # a dead transport (a timeout that no second loss report follows) is not defined
                for call2, ret2, _pk in attempts[:n]:
                    if call2["i"] > c.i_lost and "did" in ret2:
                        r2 = A.reqs[ret2["did"]]
                        if not r2.called_at_return:
                            busy = True
                if not busy and r0.failed() and r0.fires[0]["etype"] == "MQTTStateError":
                    o.bad("connect-refused-on-idle/on-lost-protocol",
                          "connect() refused with MQTTStateError on a protocol that is idle again after its connection was lost", call)
                continue
            if c.lost_at(call["i"]) and call["phase"] == "lost" and "did" in ret and not A.reqs[ret["did"]].called_at_return:
                # connect() on the protocol object of a lost connection ("after any connection loss the
                # protocol is idle"): nothing can answer, so the Deferred must fail exactly once, no later
                # than its own deadline.  (What is written to the dead transport is not judged here.)
                r = A.reqs[ret["did"]]
                dl = call["t"] + (call["info"]["keepalive"] or 10)
                if t_end is not None and dl + late <= t_end:
                    o.dec("connect_on_lost_protocol")
                    if not r.fires:
                        o.bad("connect-deferred-never-fires/on-lost-protocol", "connect() on an idle-again protocol: Deferred never fires", call)
                    elif len(r.fires) > 1 or r.fires[0]["ok"] or r.fires[0]["t"] > dl + late + 2e-6:
                        o.bad("connect-on-lost-protocol-outcome", "connect() on an idle-again protocol: Deferred %s at t=%.3f (deadline %.3f)"
                              % ("succeeded" if r.fires[0]["ok"] else "failed", r.fires[0]["t"], dl), r.fires[0])
                    elif abs(r.fires[0]["t"] - (dl + late)) > 2e-6 and r.fires[0]["etype"] == "MQTTTimeoutError":
                        o.bad("timeout-time/on-lost-protocol", "CONNACK timeout fired at t=%.3f, expected %.3f" % (r.fires[0]["t"], dl), r.fires[0])
                continue
            if not idle or c.lost_at(call["i"]) or call["phase"] != "open":
                continue          # not an idle protocol: C14's business
            o.dec("connect_calls")
            if prev_connects:
                o.dec("reconnect_after_refusal")
            wr = [e for e in c.writes if call["i"] < e["i"] < ret["i"]]
            if "did" not in ret:
                o.bad("connect-no-deferred", "connect() on an idle protocol returned %r" % (ret.get("raised") or ret.get("ret"),), call)
                continue
            r = A.reqs[ret["did"]]
            if r.called_at_return:
                o.bad("connect-refused-on-idle", "connect() with valid arguments on an idle protocol failed at once: %s"
                      % (r.fires[0].get("etype") if r.fires else "?"), call)
                continue
            if len(wr) != 1 or len(pk) != 1 or pk[0]["pkt"] is None or pk[0]["pkt"]["t"] != "CONNECT":
                o.bad("connect-writes", "connect() wrote %d packets: %r" % (len(pk), [e["raw"][:8] for e in pk]), call)
                continue
            if pk[0]["bad"] is None:
                m = connect_fields_match(pk[0]["pkt"], call["info"])
                if m:
                    o.bad("connect-fields", "CONNECT differs from arguments: " + m, call)
            k = call["info"]["keepalive"]
            i_conn = pk[0]["i"]
            deadline = pk[0]["t"] + (k or 10)
            if deadline > T_EXACT:
                continue      # (virtual time beyond float64's exact range for these sums: no timing verdicts)
            # the broker's answer to this attempt: first CONNACK delivered after its CONNECT (and before the next attempt)
            answer = None
            blown = []
            for e in c.ins:
                if not (i_conn < e["i"] < nxt):
                    continue
                acks = [p for p in A.inbound_pkts(e) if p.get("t") == "CONNACK"]
                if not acks:
                    continue
                if A._completed(e, c):
                    answer = (e, acks[0])
                    break
                blown.append(e)
                break
            # ---- outcome
            if any(a["already"] for a in r.attempts) or len(r.fires) > 1:
                o.bad("connect-deferred-twice", "connect() Deferred fired more than once", r.fires[-1] if r.fires else call)
            f = r.first_fire
            if answer is not None and (f is None or f["i"] > answer[0]["i"]) and answer[1]["rc"] == 0:
                o.dec("accepted")
                e, p = answer
                if f is None or f["step"] != e["step"] or not f["ok"]:
                    o.bad("accept-outcome", "CONNACK rc=0 but connect() Deferred %s"
                          % ("did not fire in that step" if f is None or f["step"] != e["step"] else "failed: " + f["etype"]), e)
                elif f["value"] is not p["session"]:
                    o.bad("accept-value", "connect() Deferred value %r, session-present was %r" % (f["value"], p["session"]), f)
            elif answer is not None and (f is None or f["i"] > answer[0]["i"]):
                o.dec("refused")
                e, p = answer
                step = e["step"]
                if f is None or f["step"] != step or f["ok"] or f["etype"] != "MQTTStateError":
                    o.bad("refuse-outcome", "CONNACK rc=%d but connect() Deferred: %s" % (
                        p["rc"], "no fire in that step" if f is None or f["step"] != step else ("success" if f["ok"] else f["etype"])), step)
                sn = A.snaps.get(step)
                st = sn["states"].get(c.a) if sn else None
                again = [x for x in A.step_events(step) if x["k"] == "api" and x["op"] == "connect" and x["i"] > e["i"]]
                if st is not None and st[3] == c.idx and st[2] == "open" and st[1] is False and not again:
                    o.bad("refuse-not-idle", "protocol is %s after a refused CONNACK" % st[0], step)
            else:
                if t_end is not None and deadline + late <= t_end:
                    o.dec("no_connack")
                    if f is None:
                        if blown:
                            rcv = [p["rc"] for p in A.inbound_pkts(blown[0]) if p.get("t") == "CONNACK"][0]
                            o.bad("connack-rc-unhandled/%s" % ("rc>=6" if rcv >= 6 else "rc<6"),
                                  "CONNACK rc=%d raised inside the library; connect() Deferred never fires" % rcv, blown[0])
                        else:
                            o.bad("connect-deferred-never-fires", "no CONNACK, deadline t=%.3f passed, Deferred unfired" % deadline, call)
                    else:
                        open_until = min(x for x in (c.i_close_req, c.i_lost, BIGI) if x is not None)
                        if (blown and not blown[0].get("raw") and A.inbound_pkts(blown[0])[0].get("t") == "CONNACK"
                                and f["step"] != blown[0]["step"]):
                            # the answer arrived (alone, well-formed), the library raised on it, and the Deferred
                            # only fired later through the timeout or the loss that followed
                            rcv = A.inbound_pkts(blown[0])[0]["rc"]
                            o.bad("connack-rc-unhandled/%s" % ("rc>=6" if rcv >= 6 else "rc<6"),
                                  "CONNACK rc=%d raised inside the library; connect() Deferred did not fire in that step" % rcv, blown[0])
                        if open_until > f["i"] and not blown:
                            # undisturbed handshake: this must be the timeout, on time, closing the transport
                            if f["ok"] or f["etype"] != "MQTTTimeoutError":
                                o.bad("timeout-outcome", "no CONNACK; Deferred fired with %s" % (f.get("etype") or "success"), f)
                            elif abs(f["t"] - (deadline + late)) > 2e-6:
                                o.bad("timeout-time/%s" % ("after-refusal" if prev_connects else "first"),
                                      "CONNACK timeout fired at t=%.3f, expected %.3f (keepalive=%d)" % (f["t"], deadline, k), f)
                            else:
                                closes = [x for x in c.tcalls if x["step"] == f["step"]]
                                if not closes:
                                    o.bad("timeout-no-close", "CONNACK timeout did not close the transport", f)
                        elif f["t"] > deadline + late + 2e-6 or f["ok"]:
                            o.bad("handshake-loss-outcome", "connection lost in mid-handshake; Deferred %s at t=%.3f (deadline %.3f)"
                                  % ("succeeded" if f["ok"] else "failed", f["t"], deadline), f)
        # ---- after any loss: idle, and onDisconnection exactly once with the reason
        if c.i_lost is not None:
            o.dec("losses")
            sn = A.snaps.get(c.step_lost)
            st = sn["states"].get(c.a) if sn else None
            if st is not None and st[3] == c.idx and st[1] is False:
                o.bad("not-idle-after-loss", "protocol is %s after connectionLost" % st[0], c.step_lost)
            cbs = [e for e in A.cbs if e["name"] == "onDisconnection" and e["conn"] == c.idx]
            if not c.has_ondisc and cbs:
                o.bad("ondisconnection-count/unset", "onDisconnection handler of another protocol called %d times for the loss of a connection that had none set" % len(cbs), c.step_lost)
            if c.has_ondisc and A.end is not None:
                if len(cbs) != 1:
                    o.bad("ondisconnection-count/%s" % ("none" if not cbs else "many"),
                          "onDisconnection called %d times for one loss" % len(cbs), c.step_lost)
                elif not cbs[0]["same"]:
                    o.bad("ondisconnection-reason", "onDisconnection got another reason object (%s)" % cbs[0]["reason"], cbs[0])
                elif cbs[0]["i"] < c.i_lost:
                    o.bad("ondisconnection-early", "onDisconnection before the loss", cbs[0])
                else:
                    # pending requests must have been dealt with before the notification
                    for r in A.reqs.values():
                        if r.conn == c.idx and r.op in ("publish", "subscribe", "unsubscribe") and c.clean and c.n_connects == 1 \
                                and not r.called_at_return and r.i_ret < c.i_lost:
                            if not r.fires or r.fires[0]["i"] > cbs[0]["i"]:
                                o.bad("ondisconnection-before-cleanup",
                                      "onDisconnection ran before a pending %s was failed" % r.op, cbs[0])
                                break
    return o.result()


def c15(A):
    o = Out("C15")
    late = A.cfg.late
    for c in A.conns.values():
        if c.i_connack_ok is None:
            continue
        k = c.keepalive
        if (c.t_connack_ok or 0) > T_EXACT or (A.end is not None and c.i_lost is None and A.end["t"] > T_EXACT) \
                or (c.i_lost is not None and A.trace[c.i_lost]["t"] > T_EXACT):
            continue          # (virtual time beyond float64's exact range: no timing verdicts)
        pings = [e for e in c.pkts if e["pkt"] is not None and e["pkt"]["t"] == "PINGREQ"]
        stop_i = min(x for x in (c.i_close_req, c.i_lost, 1 << 60) if x is not None)
        t_stop = A.trace[stop_i]["t"] if stop_i < (1 << 60) else (A.end["t"] if A.end else None)
        if k == 0:
            o.dec("k0")
            if pings:
                o.bad("ping-with-keepalive-0", "PINGREQ written although keepalive is 0", pings[0])
            continue
        o.dec("k>0")
        up = [e for e in pings if e["i"] < stop_i]
        times = [c.t_connack_ok] + [e["t"] for e in up]
        if t_stop is not None:
            times.append(t_stop)
        for x, y in zip(times, times[1:]):
            if y - x > k + late + 1e-6:
                o.bad("pingreq-gap", "no PINGREQ for %.3f s with keepalive %d" % (y - x, k), c.step_connack_ok)
                break
        o.dec("pingreqs", len(up))
        # answered / unanswered
        resp = [e for e in c.ins if any(p.get("t") == "PINGRESP" for p in A.inbound_pkts(e)) and A._completed(e, c)]
        aborts = [e for e in c.tcalls if e["cause"] == "timer"]
        all_answered = True
        for e in up:
            ans = [x for x in resp if x["i"] > e["i"]]
            nxt = [x for x in up if x["i"] > e["i"]]
            # a response counts for the latest ping before it
            ans = [x for x in ans if not nxt or x["i"] < nxt[0]["i"] or True]
            t_ans = ans[0]["t"] if ans else None
            dl = e["t"] + k
            if t_ans is not None and t_ans < dl - 1e-9:
                o.dec("answered")
                continue
            all_answered = False
            if t_ans is not None and dl - 1e-9 <= t_ans <= dl + late + 1e-6:
                continue    # answered exactly at k (or before a late-running reactor got to the deadline): either outcome
            # unanswered for k seconds: the connection must be aborted at that instant
            # (a reactor that fires late may run the next keepalive tick, due at the same moment, before the deadline's own alarm)
            ab = [x for x in c.tcalls if x["what"] == "abort" and dl - 1e-6 <= x["t"] <= dl + late + 1e-6]
            if not ab and t_stop is not None and t_stop <= dl + late + 1e-9:
                continue    # the connection ended (for another reason) no later than the deadline
            o.dec("unanswered")
            if not ab:
                o.bad("no-abort-on-ping-timeout", "PINGREQ at t=%.3f unanswered for %d s, no abort at t=%.3f"
                      % (e["t"], k, dl), e)
            break
        if all_answered and up:
            ab = [x for x in c.tcalls if x["cause"] == "timer" and x["i"] < (c.i_lost or 1 << 60)
                  and x["i"] == c.i_close_req]
            if ab:
                o.bad("abort-although-answered", "keepalive closed a connection whose PINGREQs were all answered in time", ab[0])
        # a timer may close an established connection only when a PINGREQ has been unanswered for k seconds
        if c.i_close_req is not None and A.trace[c.i_close_req]["k"] == "tcall" and A.trace[c.i_close_req].get("cause") == "timer":
            x = A.trace[c.i_close_req]
            due = [e for e in up if e["t"] + k <= x["t"] + 1e-6 and not [y for y in resp if e["i"] < y["i"] < x["i"]]]
            o.dec("timer_closes")
            if not due:
                last = up[-1]["t"] if up else None
                o.bad("premature-abort", "a timer closed the connection at t=%.3f; the last PINGREQ went out at t=%s and keepalive is %d"
                      % (x["t"], "%.3f" % last if last is not None else "never", k), x)
        # nothing of keepalive after the loss
        if c.i_lost is not None:
            latep = [e for e in pings if e["i"] > c.i_lost]
            if latep:
                o.bad("pingreq-after-loss", "PINGREQ written after the connection was lost", latep[0])
    return o.result()


BROKER_ONLY = ("CONNACK", "SUBACK", "UNSUBACK", "PINGRESP")


def c18(A):
    o = Out("C18")
    for c in A.conns.values():
        if not c.writes:
            continue
        o.dec("connections")
        first_connect_call = c.connect_calls[0]["i"] if c.connect_calls else None
        for wv in c.writes:
            if first_connect_call is None or wv["i"] < first_connect_call:
                o.bad("write-before-connect", "bytes written before connect(): %r" % wv["data"][:8], wv)
                break
        n_connect = 0
        disc = None
        for n, e in enumerate(c.pkts):
            o.dec("packets")
            p = e["pkt"]
            if e["bad"] is not None:
                if e["tier"] == "structural" or p is None:
                    o.bad("malformed-output/%s" % (p["t"] if p else "unframed"), "malformed packet written: %s (%r)" % (e["bad"], e["raw"][:24]), e)
                    continue
                elif not _own_pedantic(e):
                    o.bad("nonconformant-output/%s" % p["t"], "non-conformant packet written: %s (%r)" % (e["bad"], e["raw"][:24]), e)
            if p is None:
                continue
            t = p["t"]
            if n == 0 and t != "CONNECT":
                o.bad("first-not-connect", "first packet of the connection is %s" % t, e)
            if t == "CONNECT":
                n_connect += 1
                if n_connect > 1 and not (c.i_refused is not None and c.i_refused < e["i"]):
                    # (connect() again on a protocol that is idle after a refusal is allowed by C14)
                    o.bad("second-connect", "a second CONNECT was written on one connection", e)
            if t in BROKER_ONLY:
                o.bad("broker-only-type", "broker-only packet type %s written" % t, e)
            if disc is not None and e["phase"] != "aborting":
                o.bad("after-disconnect/%s/%s" % (t, e["cause"] if e.get("api") is None else "api"),
                      "%s written after DISCONNECT (%s)" % (t, e["cause"]), e)
            if t == "DISCONNECT":
                call = A.calls.get(e.get("api")) if e.get("api") is not None else None
                if call is None or call["op"] != "disconnect":
                    o.bad("disconnect-outside-disconnect()", "DISCONNECT written outside disconnect()", e)
                else:
                    ret = A.rets.get(call["i"])
                    closes = [x for x in c.tcalls if call["i"] < x["i"] < (ret["i"] if ret else 1 << 60)]
                    if not closes:
                        o.bad("disconnect-without-close", "disconnect() wrote DISCONNECT without asking the transport to close", e)
                if disc is None:
                    disc = e
            if e["phase"] in ("losing", "lost"):
                o.bad("write-after-loss/%s/%s" % (t, "reentrant" if (e.get("api") is not None and A.calls[e["api"]]["depth"]) else e["cause"]),
                      "%s written after the connection was reported lost" % t, e)
        if c.writes and not c.pkts:
            o.bad("malformed-output/unframed", "bytes written that do not form a packet", c.writes[0])
    for c in A.conns.values():
        for wv in c.writes:
            if wv["phase"] in ("losing", "lost") and not any(e["w"] == wv["i"] for e in c.pkts):
                o.bad("write-after-loss/raw", "bytes written after the connection was reported lost", wv)
    return o.result()


def _own_pedantic(e):
    """Pedantic complaints caused by what the workload itself asked for
    (wildcards in a topic *name* the application supplied)."""
    return e["bad"] == "wildcard or NUL in topic name"


# ------------------------------------------------------------------------ C14

def boundary_state(A, c, i):
    """State of a protocol as the statement words it, from boundary events
    before trace index i: idle | connecting | connected | closing | lost."""
    if c.lost_at(i):
        return "lost"
    if c.i_close_req is not None and c.i_close_req < i:
        return "closing"
    if c.i_connack_ok is not None and c.i_connack_ok < i:
        return "connected"
    connects = [e for e in getattr(c, "connects", []) if e["i"] < i]
    if not connects:
        return "idle"
    last = connects[-1]["i"]
    # has the latest CONNECT been answered (by a refusal) yet?
    for e in c.ins:
        if last < e["i"] < i and A._completed(e, c) and any(p.get("t") == "CONNACK" for p in A.inbound_pkts(e)):
            return "idle"          # refused (an acceptance would have made it "connected" above)
    # a CONNACK that blew up / a timeout that fired leave don't-care states (see _handshake_disturbed)
    return "connecting"


def allowed(profile, state, op):
    if op == "connect":
        return state == "idle"
    if op == "publish":
        return profile in PUBCAP and state in ("connecting", "connected")
    if op in ("subscribe", "unsubscribe"):
        return profile in SUBCAP and state == "connected"
    if op == "disconnect":
        return state == "connected"
    return None


BELONGS = {
    "CONNACK": lambda prof, st: st == "connecting",
    "PINGRESP": lambda prof, st: st == "connected",
    "SUBACK": lambda prof, st: st == "connected" and prof in SUBCAP,
    "UNSUBACK": lambda prof, st: st == "connected" and prof in SUBCAP,
    "PUBLISH": lambda prof, st: st == "connected" and prof in SUBCAP,
    "PUBREL": lambda prof, st: st == "connected" and prof in SUBCAP,
    "PUBACK": lambda prof, st: st == "connected" and prof in PUBCAP,
    "PUBREC": lambda prof, st: st == "connected" and prof in PUBCAP,
    "PUBCOMP": lambda prof, st: st == "connected" and prof in PUBCAP,
}


def c14(A):
    o = Out("C14")
    prof = A.cfg.profile
    for i, call in A.calls.items():
        op = call["op"]
        if op not in ("connect", "publish", "subscribe", "unsubscribe", "disconnect"):
            continue
        if call["info"].get("raw") or call["info"].get("invalid"):
            continue
        c = A.conns[call["conn"]]
        st = boundary_state(A, c, i)
        if st == "closing":
            continue          # between a close request and its report: the statement is silent
        if st == "connecting" and _handshake_disturbed(A, c, i):
            continue
        if st == "lost" and op == "connect":
            continue          # "idle" yet without a transport: both readings defensible
        if op == "connect" and st == "idle" and c.i_refused is not None and c.i_refused < i:
            continue          # second connect() after a refusal on the same transport (C18 forbids a 2nd CONNECT)
        ok = allowed(prof, st if st != "lost" else "idle", op)
        ret = A.rets.get(i)
        if ret is None:
            continue
        wrote = [e for e in c.writes if i < e["i"] < ret["i"] and (e.get("api") is None or True)]
        wrote = [e for e in A.pkts if e.get("api") == i] or ([1] if wrote and not [e for e in A.pkts if call["i"] < e["i"] < ret["i"]] else [])
        sn0, sn1 = A.calls_sig(call["step"] - 1), None
        o.dec("%s/%s/%s" % (prof, st, op))
        if ok:
            # allowed: must be taken on (window errors of subscribe/unsubscribe are C07's)
            if "did" in ret:
                r = A.reqs[ret["did"]]
                if r.called_at_return and r.failed():
                    et = r.fires[0]["etype"]
                    if et == "MQTTStateError":
                        o.bad("allowed-op-refused/%s/%s/%s" % (prof, st, op),
                              "%s() refused with MQTTStateError in %s state of profile %s" % (op, st, prof), call)
            elif ret.get("raised") == "MQTTStateError":
                o.bad("allowed-op-refused/%s/%s/%s" % (prof, st, op),
                      "%s() raised MQTTStateError in %s state of profile %s" % (op, st, prof), call)
        else:
            refused = False
            if "did" in ret:
                r = A.reqs[ret["did"]]
                refused = r.called_at_return and r.failed() and r.fires[0]["etype"] == "MQTTStateError"
                what = "returned a pending Deferred" if not r.called_at_return else (
                    "succeeded" if r.ok() else "failed with " + r.fires[0]["etype"])
            else:
                refused = ret.get("raised") == "MQTTStateError"
                what = "raised %s" % ret.get("raised") if ret.get("raised") else "returned normally"
            if not refused:
                o.bad("forbidden-op-honoured/%s/%s/%s" % (prof, st, op),
                      "%s() in %s state of profile %s %s" % (op, st, prof, what), call)
            if wrote:
                o.bad("forbidden-op-writes/%s/%s/%s" % (prof, st, op),
                      "%s() in %s state of profile %s wrote to the transport" % (op, st, prof), call)
    # broker packets foreign to the state/profile must have no effect at all
    for (sev, evs) in A.steps:
        ins = [e for e in evs if e["k"] == "in" and not e.get("raw")]
        if len(ins) != 1 or len(ins[0]["pkts"]) != 1:
            continue
        e = ins[0]
        p = e["pkts"][0]
        if p["t"] not in BELONGS:
            continue
        c = A.conns[e["conn"]]
        st = boundary_state(A, c, e["i"])
        if st in ("closing", "lost") or (st == "connecting" and _handshake_disturbed(A, c, e["i"])):
            continue
        if BELONGS[p["t"]](prof, st):
            continue
        o.dec("foreign/%s/%s/%s" % (prof, st, p["t"]))
        eff = [x for x in evs if x["k"] in ("write", "fire", "cb", "tcall", "exc", "lost") and x["i"] > e["i"]]
        before, after = A.calls_sig(sev["step"] - 1), A.calls_sig(sev["step"])
        if eff:
            o.bad("foreign-packet-effect/%s/%s/%s/%s" % (prof, st, p["t"], eff[0]["k"]),
                  "%s in %s state of profile %s caused %s" % (p["t"], st, prof, eff[0]["k"]), e)
        elif before is not None and before != after:
            o.bad("foreign-packet-effect/%s/%s/%s/timer" % (prof, st, p["t"]),
                  "%s in %s state of profile %s changed the timers" % (p["t"], st, prof), e)
    return o.result()


def _handshake_disturbed(A, c, i):
    """CONNECT written, no CONNACK accepted, but something already ended the
    handshake (timeout fired, a CONNACK blew up): state not defined by the statement."""
    for call in c.connect_calls:
        ret = A.rets.get(call["i"])
        if ret is not None and "did" in ret:
            r = A.reqs[ret["did"]]
            if r.fires and r.fires[0]["i"] < i and not r.called_at_return:
                return True
    for e in c.ins:
        if e["i"] < i and not A._completed(e, c):
            return True
    return False
