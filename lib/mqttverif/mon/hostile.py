"""C16: malformed or unexpected input is contained."""
from . import Out
from .conn import PUBCAP, SUBCAP


def _ctx(A, step_no):
    """What the rig was delivering when something blew up."""
    for e in A.step_events(step_no):
        if e["k"] == "in":
            if e.get("raw"):
                pk = [x for x in e["pkts"]]
                if pk and pk[0]["pkt"] is not None:
                    return pk[0]["pkt"]["t"] + ("!" if pk[0]["tier"] == "structural" else "")
                return "bytes"
            return e["pkts"][0]["t"] if e["pkts"] else "bytes"
    return A.steps[step_no][0]["s"][0]


def c16(A):
    o = Out("C16")
    prof = A.cfg.profile
    for x in A.excs:
        if x["where"] in ("dataReceived", "timer", "loopingcall"):
            ctx = _ctx(A, x["step"]) if x["where"] == "dataReceived" else (x.get("name") or "?").split(".")[-1]
            o.bad("exception-escapes/%s/%s/%s" % (x["where"], x["etype"], ctx),
                  "%s escaped from %s (%s): %s" % (x["etype"], x["where"], ctx, x["msg"]), x)
    for (sev, evs) in A.steps:
        ins = [e for e in evs if e["k"] == "in"]
        if not ins:
            continue
        o.dec("inbound_steps")
        raw = [e for e in ins if e.get("raw")]
        # the strongest reaction is aborting the connection
        for e in evs:
            if e["k"] == "pkt" and e["pkt"] is not None and e["pkt"]["t"] in ("DISCONNECT", "CONNECT") and e.get("api") is None:
                o.bad("reaction-stronger-than-abort/%s" % e["pkt"]["t"], "%s written in reaction to inbound data" % e["pkt"]["t"], e)
        if not raw:
            continue
        o.dec("raw_steps")
        e0 = raw[0]
        c = A.conns[e0["conn"]]
        good = [x["pkt"] for x in e0["pkts"] if x["pkt"] is not None and x["tier"] != "structural"]
        structural = [x for x in e0["pkts"] if x["tier"] == "structural"] or e0.get("frame_err")
        up = c.up_at(e0["i"])
        for cb in [x for x in evs if x["k"] == "cb" and x["name"] == "onPublish" and not _nested(evs, x)]:
            topic, payload, qos, dup, retain, ident = cb["args"]
            ok = False
            for p in good:
                if p["t"] == "PUBLISH" and up and prof in SUBCAP and p["topic"] == topic and p["payload"] == payload \
                        and p["qos"] == qos and p["id"] == ident:
                    ok = True
            if not ok and qos == 2 and up and prof in SUBCAP:
                ok = any(p["t"] == "PUBREL" and p["id"] == ident for p in good)
            if not ok:
                o.bad("unjustified-delivery/%s" % ("malformed" if structural else "state"),
                      "onPublish(%r, %r, qos=%r) not justified by any well-formed packet in %r" % (topic, payload[:16] if payload is not None else None, qos, e0["data"][:24]), cb)
        for f in [x for x in evs if x["k"] == "fire" and x["ok"] and x["i"] > e0["i"]]:
            r = A.reqs[f["did"]]
            if r.called_at_return:
                continue
            need = {"connect": "CONNACK", "subscribe": "SUBACK", "unsubscribe": "UNSUBACK"}.get(r.op)
            if r.op == "publish":
                need = "PUBACK" if r.info.get("qos") == 1 else "PUBCOMP"
            ok = False
            for p in good:
                if p["t"] == need and (need == "CONNACK" and p["rc"] == 0 or need != "CONNACK" and p.get("id") == r.msgId):
                    ok = True
            if not ok:
                o.bad("unjustified-success/%s" % r.op, "%s Deferred succeeded on input %r that contains no well-formed %s for it"
                      % (r.op, e0["data"][:24], need), f)
    # pending requests are settled by the ordinary loss handling: none is left hanging
    from .pub import c11
    raw_steps = set(sev["step"] for (sev, evs) in A.steps if any(e["k"] == "in" and e.get("raw") for e in evs))
    if raw_steps:
        v11, _ = c11(A)
        for x in v11:
            if "pending-not-failed" in x.sig or "wrong-failure" in x.sig:
                o.bad("left-hanging/" + x.sig.split(".", 1)[1], "after hostile input: " + x.msg, x.step)
        for c in A.conns.values():
            if c.i_lost is not None:
                o.dec("losses_after_input")
    return o.result()


def _nested(evs, cb):
    return False
