"""Publisher-side monitors: C05 (publish Deferred), C09 (QoS 2 sender order),
C10 (window / FIFO / no strand), C11 (clean session), C12 (persistent
session), C17 (identifiers)."""
from . import Out
from .conn import boundary_state, allowed, PUBCAP, SUBCAP

BIG = 1 << 60


def delivered_acks(A):
    """[(in event, pkt)] for every well-formed packet delivered completely to
    a connection that was up."""
    out = []
    for c in A.conns.values():
        for e in c.ins:
            for p in A.inbound_pkts(e):
                out.append((e, p, c))
    out.sort(key=lambda x: x[0]["i"])
    return out


def chain_persistent(A, r, upto_conn):
    """Is request r (made on an earlier connection of the address) still part of the session of
    connection `upto_conn`?  True: every connection since was persistent.  False: a clean-session
    connection lies in between.  None: cannot be said (a connection with several CONNECTs, or a
    protocol that was lost before connect() was ever called) -- such requests are not judged."""
    c = A.conns[r.conn]
    if c.idx == upto_conn.idx:
        return True
    if c.n_connects > 1:
        return None
    if c.clean is not False:
        return False
    verdict = True
    x = c.next
    while x is not None:
        if x.n_connects > 1 or (x.connect_pkt is None and x.i_lost is not None and x.idx != upto_conn.idx):
            verdict = None
        elif x.clean is not False and x.connect_pkt is not None:
            return False          # (also when it is `upto_conn` itself: a clean connection inherits nothing)
        if x.idx == upto_conn.idx:
            return verdict
        x = x.next
    return False


def pub_reqs(A):
    return [r for r in A.reqs.values() if r.op == "publish" and not r.info.get("raw")]


# --------------------------------------------------------------------------- C05

def c05(A):
    o = Out("C05")
    steps_in = {}
    for (sev, evs) in A.steps:
        steps_in[sev["step"]] = [e for e in evs if e["k"] == "in"]
    acks = delivered_acks(A)
    for r in pub_reqs(A):
        qos = r.info["qos"]
        if qos not in (0, 1, 2):
            continue
        if qos == 0:
            if not r.called_at_return:
                o.bad("qos0-pending", "publish() at QoS 0 returned an unfired Deferred", r.i_ret)
            elif r.ok():
                o.dec("qos0")
                if r.fires[0]["value"] is not None:
                    o.bad("qos0-value", "QoS 0 Deferred succeeded with %r" % (r.fires[0]["value"],), r.i_ret)
                if r.msgId not in (None, "<none>"):
                    o.bad("qos0-msgid", "QoS 0 Deferred carries msgId %r" % (r.msgId,), r.i_ret)
            if len(r.fires) > 1:
                o.bad("fired-twice/qos0", "QoS 0 Deferred fired %d times" % len(r.fires), r.fires[1])
            continue
        if r.called_at_return:
            if r.ok():
                o.bad("success-at-return/qos%d" % qos, "publish() at QoS %d succeeded without any acknowledgement" % qos, A.trace[r.i_ret])
            continue
        # identifiers: Deferred / wire / callback value
        wire_ids = set(e["pkt"]["id"] for e in r.tx)
        if wire_ids and wire_ids != {r.msgId}:
            o.bad("msgid-mismatch", "Deferred.msgId=%r but wire identifier(s) %r" % (r.msgId, sorted(wire_ids)), r.tx[0])
        if len(r.fires) > 1 or any(a["already"] for a in r.attempts):
            o.bad("fired-twice/qos%d" % qos, "publish Deferred fired more than once", (r.fires[1] if len(r.fires) > 1 else r.attempts[-1]))
        if r.ok():
            f = r.fires[0]
            o.dec("success/qos%d" % qos)
            need = "PUBACK" if qos == 1 else "PUBCOMP"
            first_tx = r.tx[0]["i"] if r.tx else BIG
            ins = [e for e in steps_in.get(f["step"], []) if e["i"] < f["i"]]
            hit = [e for e in ins for p in A.inbound_pkts(e) if p["t"] == need and p.get("id") == r.msgId]
            if not hit or first_tx > hit[0]["i"]:
                o.bad("success-without-ack/qos%d" % qos, "publish Deferred (id %r) succeeded in a step that delivered no %s for it" % (r.msgId, need), f)
            elif qos == 2:
                rec = [e for (e, p, c) in acks if p["t"] == "PUBREC" and p.get("id") == r.msgId and first_tx < e["i"] < hit[0]["i"]]
                if not rec:
                    o.bad("success-without-pubrec", "QoS 2 publish succeeded on PUBCOMP without a preceding PUBREC", f)
            if f["value"] != r.msgId:
                o.bad("callback-value", "callback value %r, msgId %r" % (f["value"], r.msgId), f)
    # the acknowledgement a pending exchange is waiting for completes it there and then
    by_id = {}
    for r in pub_reqs(A):
        if r.info["qos"] in (1, 2) and not r.called_at_return and isinstance(r.msgId, int):
            by_id.setdefault((r.a, r.msgId), []).append(r)
    for (e, p, c) in acks:
        if p["t"] not in ("PUBACK", "PUBCOMP") or e.get("raw") or len(e["pkts"]) != 1 or not c.up_at(e["i"]):
            continue
        qos = 1 if p["t"] == "PUBACK" else 2
        for r in by_id.get((c.a, p.get("id")), []):
            if r.info["qos"] != qos or r.fired_before(e["i"]) or chain_persistent(A, r, c) is not True:
                continue
            here = [x for x in r.tx if x["conn"] == c.idx and x["i"] < e["i"]]
            if not here:
                continue          # not (re)sent on this connection yet
            if qos == 2:
                rec = [x for (x, q, cc) in acks if q["t"] == "PUBREC" and q.get("id") == r.msgId and cc.a == c.a
                       and r.tx[0]["i"] < x["i"] < e["i"] and cc.up_at(x["i"])]
                rel = [x for x in c.pkts if x["pkt"] is not None and x["pkt"]["t"] == "PUBREL" and x["pkt"]["id"] == r.msgId
                       and r.tx[0]["i"] < x["i"] < e["i"]]
                if not rec or not rel:
                    continue      # a PUBCOMP out of turn: judged as a no-op below
            o.dec("final_acks/qos%d" % qos)
            if not (r.fires and r.fires[0]["step"] == e["step"] and r.fires[0]["ok"]):
                o.bad("ack-without-success/qos%d" % qos,
                      "%s for identifier %r delivered while its publish was pending: the Deferred did not succeed in that step (%s)"
                      % (p["t"], r.msgId, "never fired" if not r.fires else ("fired later" if r.fires[0]["ok"] else "failed with " + str(r.fires[0].get("etype")))), e)
    # duplicate / late / unknown / out-of-order acknowledgements change nothing
    for (sev, evs) in A.steps:
        s = sev["s"]
        if s[0] not in ("dupack", "stray", "early", "cross") or s[2] not in ("PUBACK", "PUBREC", "PUBCOMP"):
            continue
        ins = [e for e in evs if e["k"] == "in"]
        if not ins:
            continue
        c = A.conns[ins[0]["conn"]]
        if not c.up_at(ins[0]["i"]) or A.cfg.profile not in PUBCAP:
            continue
        o.dec("noop_acks/" + s[0])
        eff = [x for x in evs if x["k"] in ("write", "fire", "cb", "tcall", "exc", "lost")]
        if eff:
            o.bad("spurious-ack-effect/%s/%s/%s" % (s[0], s[2], eff[0]["k"]),
                  "%s %s (id %s) caused %s" % (s[0], s[2], ins[0]["pkts"][0].get("id"), eff[0]["k"]), sev)
        elif A.calls_sig(sev["step"] - 1) is not None and A.calls_sig(sev["step"] - 1) != A.calls_sig(sev["step"]):
            o.bad("spurious-ack-effect/%s/%s/timer" % (s[0], s[2]), "%s %s changed the timers" % (s[0], s[2]), sev)
    # after the broker answered everything: nothing may still be pending
    if A.i_endmark is not None:
        for a in (0, 1):
            cur = [c for c in A.conns.values() if c.a == a and c.up_at(A.i_endmark)]
            if not cur:
                continue
            c = cur[0]

            def behind_refusal(r):
                # only ever sent behind a CONNECT that was refused: the broker never took it on; its retry timer will repeat it
                return bool(r.tx and c.n_connects > 1 and c.i_connect_accepted is not None
                            and not any(e["i"] > c.i_connect_accepted for e in r.tx))
            waiting = [r for r in pub_reqs(A) if r.a == a and r.info["qos"] in (1, 2) and not r.called_at_return
                       and r.i_ret <= A.i_endmark and not r.fired_before(A.i_endmark) and behind_refusal(r)]
            for r in pub_reqs(A):
                if r.a != a or r.info["qos"] not in (1, 2) or r.called_at_return:
                    continue
                if r.i_ret > A.i_endmark or r.fired_before(A.i_endmark):
                    continue
                if not chain_persistent(A, r, c):
                    continue
                if A.cfg.profile not in PUBCAP or boundary_state(A, A.conns[r.conn], r.i_call) not in ("connected", "connecting"):
                    continue
                if behind_refusal(r) or (waiting and not r.tx):
                    continue      # (or held back behind such a message, which rightly occupies the window until its timer repeats it)
                o.bad("never-completes/%s" % ("untransmitted" if not r.tx else "transmitted"),
                      "publish (token %s, id %r) still pending after the broker acknowledged everything it was sent"
                      % (r.info["token"], r.msgId), A.trace[A.i_endmark])
            o.dec("endcheck")
    return o.result()


# --------------------------------------------------------------------------- C09

def c09(A):
    o = Out("C09")
    acks = delivered_acks(A)
    for a in (0, 1):
        # exchanges of this address, by identifier: list of dicts in order
        open_by_id = {}
        events = []
        for e in A.pkts:
            if e["a"] == a and e["pkt"] is not None and e["pkt"]["t"] in ("PUBLISH", "PUBREL", "SUBSCRIBE", "UNSUBSCRIBE"):
                events.append((e["i"], "tx", e))
        for (e, p, c) in acks:
            if c.a == a and p["t"] in ("PUBREC", "PUBCOMP") and c.up_at(e["i"]):
                events.append((e["i"], "rx", (e, p)))
        for r in pub_reqs(A):
            if r.a == a and r.info["qos"] == 2:
                for f in r.fires:
                    events.append((f["i"], "fire", (r, f)))
        events.sort(key=lambda x: (x[0], 0 if x[1] == "rx" else 1))
        ex = {}       # token -> exchange state
        for i, kind, x in events:
            if kind == "tx":
                p = x["pkt"]
                if p["t"] == "PUBLISH" and p["qos"] == 2:
                    tok = x.get("token")
                    st = ex.get(tok)
                    if st is None:
                        # identifier still owned by an unfinished exchange?
                        old = open_by_id.get(p["id"])
                        if old is not None and not old["over"]:
                            o.bad("id-reused-in-exchange", "identifier %d given to a new PUBLISH while its QoS 2 exchange is unfinished" % p["id"], x)
                        st = ex[tok] = {"id": p["id"], "rec": False, "rel": False, "over": False, "tok": tok}
                        open_by_id[p["id"]] = st
                        o.dec("exchanges")
                    elif st["rel"] and not st["over"]:
                        o.bad("publish-after-pubrel/%s" % x["cause"], "PUBLISH (id %d) written again after its PUBREL (%s)" % (p["id"], x["cause"]), x)
                    elif st["rel"]:
                        o.bad("publish-after-exchange", "PUBLISH (id %d) written again after its exchange ended" % p["id"], x)
                elif p["t"] == "PUBREL":
                    st = open_by_id.get(p["id"])
                    o.dec("pubrels")
                    if st is None or st["over"]:
                        o.bad("pubrel-without-exchange", "PUBREL for identifier %d with no QoS 2 exchange open" % p["id"], x)
                    elif not st["rec"]:
                        o.bad("pubrel-before-pubrec", "PUBREL (id %d) written before any PUBREC for it was received" % p["id"], x)
                    else:
                        st["rel"] = True
                elif p["t"] in ("PUBLISH", "SUBSCRIBE", "UNSUBSCRIBE") and p.get("id"):
                    old = open_by_id.get(p["id"])
                    if old is not None and not old["over"] and x.get("token") != old["tok"]:
                        first = not [y for y in A.pkts if y["i"] < x["i"] and y.get("token") == x.get("token") and y["a"] == a]
                        if first:
                            o.bad("id-reused-in-exchange", "identifier %d given to a new %s while its QoS 2 exchange is unfinished" % (p["id"], p["t"]), x)
            elif kind == "rx":
                e, p = x
                st = open_by_id.get(p["id"])
                if st is None or st["over"]:
                    continue
                if p["t"] == "PUBREC":
                    st["rec"] = True
                elif p["t"] == "PUBCOMP" and st["rel"]:
                    st["over"] = True
            elif kind == "fire":
                r, f = x
                st = ex.get(r.info["token"])
                if st is not None and not st["over"]:
                    if f["ok"]:
                        o.bad("success-before-pubcomp", "QoS 2 Deferred succeeded before PUBCOMP", f)
                    st["over"] = True      # failed: session discarded / loss with clean session
    return o.result()


# --------------------------------------------------------------------------- C10

def c10(A):
    o = Out("C10")
    prof = A.cfg.profile
    acks = delivered_acks(A)
    for a in (0, 1):
        reqs = sorted([r for r in pub_reqs(A) if r.a == a], key=lambda r: r.i_call)
        if not reqs:
            continue
        by_tok = {r.info["token"]: r for r in reqs}
        ev = []
        for e in A.pkts:
            if e["a"] == a and e["pkt"] is not None and e["pkt"]["t"] == "PUBLISH" and e.get("token") in by_tok:
                ev.append((e["i"], "tx", e))
        for (e, p, c) in acks:
            if c.a == a and p["t"] in ("PUBACK", "PUBREC") and c.up_at(e["i"]):
                ev.append((e["i"], "ack", p))
        for r in reqs:
            for f in r.fires:
                ev.append((f["i"], "fire", r))
        ev.sort(key=lambda x: x[0])
        inflight = {}          # token -> id
        seen = set()
        last_first = -1
        for i, kind, x in ev:
            if kind == "tx":
                tok, p = x["token"], x["pkt"]
                r = by_tok[tok]
                if tok not in seen:
                    seen.add(tok)
                    o.dec("first_tx")
                    if tok < last_first:
                        o.bad("fifo-order", "first transmissions out of publish() order: token %d after %d" % (tok, last_first), x)
                    last_first = max(last_first, tok)
                    if p["qos"]:
                        if not r.fired_before(x["i"]):
                            inflight[tok] = p["id"]
                        if len(inflight) > x["window"]:
                            o.bad("window-exceeded", "%d PUBLISH packets await their first acknowledgement, window is %d"
                                  % (len(inflight), x["window"]), x)
                elif not p["dup"]:
                    o.bad("first-tx-twice/qos%d" % p["qos"], "message (token %d) transmitted a second time as a first transmission (DUP=0)" % tok, x)
            elif kind == "ack":
                for tok, ident in list(inflight.items()):
                    if ident == x["id"]:
                        del inflight[tok]
                        break
            else:
                inflight.pop(x.info["token"], None)
        # never rejected or dropped
        for r in reqs:
            if r.info["qos"] not in (0, 1, 2):
                continue
            c = A.conns[r.conn]
            st = boundary_state(A, c, r.i_call)
            if st in ("connected", "connecting") and prof in PUBCAP and r.called_at_return and r.failed():
                et = r.fires[0]["etype"]
                if et != "MQTTStateError":
                    o.bad("publish-rejected/%s" % et, "publish() rejected with %s" % et, A.trace[r.i_ret])
        # no accepted message left unsent while up and nothing outstanding (after every step)
        for (sev, evs) in A.steps:
            sn = A.snaps.get(sev["step"])
            if sn is None:
                continue
            i_s = sn["i"]
            cs = [c for c in A.conns.values() if c.a == a and c.up_at(i_s)]
            if not cs:
                continue
            c = cs[0]
            outstanding = False
            unsent = None
            for r in reqs:
                if r.i_ret > i_s or not r.accepted():
                    continue
                if not chain_persistent(A, r, c):
                    continue
                q = r.info["qos"]
                if q not in (0, 1, 2):
                    continue
                sent = bool(r.tx) and r.tx[0]["i"] < i_s
                if q and sent and not r.fired_before(i_s):
                    outstanding = True
                    break
                st0 = boundary_state(A, A.conns[r.conn], r.i_call)
                if st0 not in ("connected", "connecting"):
                    continue
                if not sent and (q == 0 or not r.fired_before(i_s)):
                    if unsent is None:
                        unsent = r
            o.dec("strand_checks")
            if not outstanding and unsent is not None:
                o.bad("stranded/qos%d" % unsent.info["qos"],
                      "accepted message (token %d, QoS %d) unsent although the connection is up and no QoS>0 exchange is outstanding"
                      % (unsent.info["token"], unsent.info["qos"]), sev)
                break
    return o.result()


# --------------------------------------------------------------------------- C11

def _stage(r, i):
    if r.op != "publish":
        return "sent" if r.tx else "unsent"
    if not r.tx or r.tx[0]["i"] > i:
        return "heldback"
    return "sent"


def c11(A):
    o = Out("C11")
    for c in A.conns.values():
        if c.i_lost is None or c.clean is not True or c.n_connects > 1:
            continue      # (a second connect() after a refusal may have changed the session mode: not judged)
        o.dec("clean_losses")
        lo, hi = c.i_lost, (c.i_lost_done if c.i_lost_done is not None else BIG)
        for r in A.reqs.values():
            if r.conn != c.idx or r.op not in ("publish", "subscribe", "unsubscribe"):
                continue
            if r.op == "publish" and r.info.get("qos") not in (1, 2):
                continue
            if r.called_at_return or r.i_ret > lo or r.fired_before(lo):
                continue
            o.dec("pending_at_loss")
            stage = _stage(r, lo)
            inwin = [f for f in r.fires if lo < f["i"] < hi]
            if not inwin:
                o.bad("pending-not-failed/%s/%s" % (r.op, stage),
                      "%s Deferred (%s) not failed when its clean-session connection was lost%s"
                      % (r.op, stage, "" if not r.fires else " (fired later: %s)" % (r.fires[0].get("etype") or "success")), c.step_lost)
                continue
            f = inwin[0]
            if f["ok"]:
                o.bad("pending-succeeded-at-loss/%s" % r.op, "%s Deferred succeeded at connection loss" % r.op, f)
            elif not f["is_reason"]:
                o.bad("wrong-failure/%s/%s" % (r.op, f["etype"]), "%s Deferred failed with %s, not with the reason of the loss" % (r.op, f["etype"]), f)
            if len(r.fires) > 1 or any(x["already"] for x in r.attempts):
                o.bad("failed-twice/%s" % r.op, "%s Deferred fired more than once" % r.op, f)
        # nothing carried over to the next connection of this address
        n = c.next
        if n is not None:
            o.dec("next_connections")
            own_ids = set()
            for e in n.pkts:
                p = e["pkt"]
                if p is None:
                    continue
                t = p["t"]
                if t in ("CONNECT", "PINGREQ", "DISCONNECT", "PUBACK", "PUBREC", "PUBCOMP"):
                    continue
                if t in ("PUBLISH", "SUBSCRIBE", "UNSUBSCRIBE"):
                    r = A.by_token.get(e.get("token"))
                    if r is not None and r.conn == n.idx:
                        if p.get("id"):
                            own_ids.add(p["id"])
                        continue
                    o.bad("carry-over/%s/%s" % (t, "heldback" if (r is not None and len(r.tx) and r.tx[0]["i"] == e["i"]) else "resent"),
                          "%s of the previous (clean-session) connection written on the next one" % t, e)
                elif t == "PUBREL":
                    if p["id"] not in own_ids:
                        o.bad("carry-over/PUBREL", "PUBREL of the previous (clean-session) connection written on the next one", e)
    return o.result()


# --------------------------------------------------------------------------- C12

def c12(A):
    o = Out("C12")
    acks = delivered_acks(A)
    for c in A.conns.values():
        # (1) losing a persistent connection fails no publish Deferred
        if c.n_connects > 1:
            continue
        if c.i_lost is not None and c.clean is False:
            o.dec("persistent_losses")
            lo, hi = c.i_lost, (c.i_lost_done if c.i_lost_done is not None else BIG)
            for r in pub_reqs(A):
                if r.a != c.a or r.called_at_return or r.i_ret > lo:
                    continue
                bad = [f for f in r.fires if lo < f["i"] < hi]
                if bad:
                    o.bad("persistent-loss-fires/%s" % (bad[0].get("etype") or "success"),
                          "publish Deferred fired (%s) when a persistent-session connection was lost" % (bad[0].get("etype") or "success"), bad[0])
        if c.i_connack_ok is None or c.prev is None:
            continue
        iack = c.i_connack_ok
        step_events = A.step_events(c.step_connack_ok)
        tx_in_step = [e for e in step_events if e["k"] == "pkt" and e["conn"] == c.idx and e["pkt"] is not None and e["i"] > iack]
        earlier = [r for r in pub_reqs(A) if r.a == c.a and r.conn < c.idx and not r.called_at_return
                   and r.info["qos"] in (1, 2)]
        own_pre = [r for r in pub_reqs(A) if r.conn == c.idx and r.i_ret < iack and not r.called_at_return
                   and r.info["qos"] in (1, 2)]
        # (4) requests made on the new connection before its CONNACK
        for r in own_pre:
            o.dec("preconnack_requests")
            fs = [f for f in r.fires if f["step"] == c.step_connack_ok and not f["ok"] and f["i"] < (c.i_lost or BIG)]
            if fs:
                o.bad("preconnack-failed/%s" % ("clean" if c.clean else "persistent"),
                      "publish made before CONNACK failed (%s) by the session handling at CONNACK" % fs[0]["etype"], fs[0])
            re = [e for e in tx_in_step if e.get("token") == r.info["token"] and r.tx and e["i"] != r.tx[0]["i"]]
            if re:
                o.bad("preconnack-resent/%s" % ("clean" if c.clean else "persistent"),
                      "publish made before CONNACK transmitted again by the resumption at CONNACK", re[0])
        if c.clean:
            # (3) carried-over publishes fail with MQTTSessionCleared
            # (some time between the CONNECT of the clean connection and the end of its CONNACK step:
            #  the statement does not say when in the handshake)
            sn = A.snaps.get(c.step_connack_ok)
            i0 = c.i_connect_accepted if c.i_connect_accepted is not None else iack
            for r in earlier:
                if r.fired_before(i0):
                    continue
                o.dec("carried_into_clean")
                fs = [f for f in r.fires if f["step"] <= c.step_connack_ok]
                if not fs:
                    o.bad("carryover-not-cleared/%s" % _stage(r, iack),
                          "publish carried over (%s) into a clean-session connection not failed at its CONNACK" % _stage(r, iack), c.step_connack_ok)
                elif (not fs[0]["ok"]) and c.i_lost is not None and c.i_lost < fs[0]["i"]:
                    # the application disconnected from an errback of the purge and the transport
                    # reported the loss at once: this clean-session connection ended before the
                    # Deferred failed, and C11 lets it fail with the reason of the loss
                    o.dec("carried_failed_by_loss")
                elif fs[0]["ok"] or fs[0]["etype"] != "MQTTSessionCleared":
                    o.bad("carryover-wrong-failure/%s" % (fs[0].get("etype") or "success"),
                          "carried-over publish fired with %s instead of MQTTSessionCleared" % (fs[0].get("etype") or "success"), fs[0])
            continue
        # (2) persistent resumption: only if the whole chain back to the request is persistent
        carried, released = [], []
        for r in earlier:
            if r.fired_before(iack) or not chain_persistent(A, r, c):
                continue
            txs = [e for e in r.tx if e["i"] < iack and e["conn"] < c.idx]
            if not txs:
                continue          # held back: a first transmission, C10's
            ident = r.msgId
            first = txs[0]["i"]
            rec = [e for (e, p, cc) in acks if cc.a == c.a and p["t"] == "PUBREC" and p.get("id") == ident
                   and first < e["i"] < iack and cc.up_at(e["i"])]
            ack1 = [e for (e, p, cc) in acks if cc.a == c.a and p["t"] == "PUBACK" and p.get("id") == ident
                    and first < e["i"] < iack and cc.up_at(e["i"])]
            rel = [e for e in A.pkts if e["a"] == c.a and e["pkt"] is not None and e["pkt"]["t"] == "PUBREL"
                   and e["pkt"]["id"] == ident and first < e["i"] < iack]
            if r.info["qos"] == 2 and rel:
                released.append(r)
            elif (r.info["qos"] == 2 and rec) or (r.info["qos"] == 1 and ack1):
                continue      # acknowledged but not completed?  then the Deferred would have fired; defensive
            else:
                carried.append((first, r))
        carried.sort(key=lambda x: x[0])
        pubs = [e for e in tx_in_step if e["pkt"]["t"] == "PUBLISH"]
        rels = [e for e in tx_in_step if e["pkt"]["t"] == "PUBREL"]
        o.dec("resumptions")
        order = []
        for first, r in carried:
            o.dec("carried")
            mine = [e for e in pubs if e.get("token") == r.info["token"]]
            if not mine:
                o.bad("resume-missing/PUBLISH", "unacknowledged PUBLISH (token %d) not re-sent at CONNACK of the resumed session" % r.info["token"], c.step_connack_ok)
                continue
            if len(mine) > 1:
                o.bad("resume-duplicate/PUBLISH", "PUBLISH re-sent %d times at CONNACK" % len(mine), mine[1])
            e = mine[0]
            if not e["pkt"]["dup"]:
                o.bad("resume-dup0", "resumed PUBLISH re-sent with DUP=0", e)
            orig = r.tx[0]
            if _nodup(e["raw"]) != _nodup(orig["raw"]):
                o.bad("resume-content", "resumed PUBLISH differs from the original (identifier/topic/payload)", e)
            order.append(e["i"])
        if order != sorted(order):
            o.bad("resume-order", "resumed PUBLISH packets not in their original order", c.step_connack_ok)
        for r in released:
            o.dec("released")
            mine = [e for e in rels if e["pkt"]["id"] == r.msgId]
            if not mine:
                o.bad("resume-missing/PUBREL", "unacknowledged PUBREL (id %r) not re-sent at CONNACK" % r.msgId, c.step_connack_ok)
            elif len(mine) > 1:
                o.bad("resume-duplicate/PUBREL", "PUBREL re-sent %d times at CONNACK" % len(mine), mine[1])
            again = [e for e in pubs if e.get("token") == r.info["token"]]
            if again:
                o.bad("resume-publish-of-released", "PUBLISH of an already released message re-sent at CONNACK", again[0])
        # held-back messages are released as far as the window of the new protocol allows
        win = None
        for e in tx_in_step:
            win = e["window"]
        if win is None:
            for i2, cl in A.calls.items():
                if cl["conn"] == c.idx and i2 < iack:
                    win = cl["window"]
        sn_i = A.snaps[c.step_connack_ok]["i"] if c.step_connack_ok in A.snaps else BIG
        inflight = 0
        held = []
        for r in pub_reqs(A):
            if r.a != c.a or r.called_at_return or r.info["qos"] not in (1, 2) or r.i_ret > iack:
                continue
            if r.fired_before(sn_i) or not chain_persistent(A, r, c):
                continue
            sent = [e for e in r.tx if e["i"] < sn_i]
            if not sent:
                held.append(r)
            elif r not in released:
                inflight += 1
        if held and win is not None:
            o.dec("heldback_at_resume")
            if inflight < win:
                o.bad("heldback-not-released", "%d held-back message(s) stay queued at CONNACK although only %d of %d window slots are taken"
                      % (len(held), inflight, win), c.step_connack_ok)
        # nothing else may be repeated: every other PUBLISH in this step is a first transmission
        known = set(r.info["token"] for _, r in carried) | set(r.info["token"] for r in released)
        for e in pubs:
            tok = e.get("token")
            if tok in known:
                continue
            r = A.by_token.get(tok)
            if r is not None and r.tx and r.tx[0]["i"] != e["i"] and r.conn != c.idx and chain_persistent(A, r, c) is not None:
                o.bad("resume-extra", "PUBLISH (token %s) repeated at CONNACK although not awaiting acknowledgement" % tok, e)
    return o.result()


def _nodup(raw):
    return bytes((raw[0] & 0xF7,)) + raw[1:]


# --------------------------------------------------------------------------- C17

def c17(A):
    o = Out("C17")
    for e in A.pkts:
        p = e["pkt"]
        if p is None or p["t"] not in ("PUBLISH", "PUBREL", "SUBSCRIBE", "UNSUBSCRIBE"):
            continue
        if p["t"] == "PUBLISH" and not p["qos"]:
            continue
        o.dec("wire_ids")
        if not (1 <= p["id"] <= 65535):
            o.bad("wire-id-range/%s" % p["t"], "identifier %r on the wire" % (p["id"],), e)
    # a request with valid arguments must not fail because no representable identifier could be made
    for r in A.reqs.values():
        if r.op in ("publish", "subscribe", "unsubscribe") and not r.info.get("raw") and r.called_at_return and r.failed():
            et = r.fires[0]["etype"]
            if et not in ("MQTTStateError", "MQTTWindowError"):
                o.bad("request-failed-at-allocation/%s/%s" % (r.op, et), "%s() with valid arguments failed with %s: %s" % (r.op, et, r.fires[0].get("msg")), A.trace[r.i_ret])
    live = {}     # msgId -> Req (unfinished)
    order = []
    for r in A.reqs.values():
        if r.op in ("publish", "subscribe", "unsubscribe"):
            order.append((r.i_ret, 1, r))
            for f in r.fires:
                order.append((f["i"], 0, r))
    order.sort(key=lambda x: (x[0], x[1]))
    wrapped = any(e["k"] == "placeid" and e["ok"] for e in A.trace)
    for i, kind, r in order:
        if kind == 0:
            if live.get(r.msgId) is r:
                del live[r.msgId]
            continue
        if r.called_at_return or not isinstance(r.msgId, int):
            if not r.called_at_return and r.msgId in (None, "<none>"):
                o.bad("no-msgid/%s" % r.op, "pending %s Deferred without msgId" % r.op, A.trace[r.i_ret])
            continue
        o.dec("allocations")
        if not (1 <= r.msgId <= 65535):
            o.bad("deferred-id-range/%s" % r.op, "Deferred.msgId=%r" % (r.msgId,), A.trace[r.i_ret])
        if r.fires and r.fires[0]["i"] < r.i_ret:
            continue
        other = live.get(r.msgId)
        if other is not None:
            o.bad("id-in-use/%s-vs-%s%s" % (r.op, other.op, "/after-wrap" if wrapped else ""),
                  "identifier %d given to a new %s while an earlier %s carrying it is unfinished" % (r.msgId, r.op, other.op), A.trace[r.i_ret])
        live[r.msgId] = r
    return o.result()
