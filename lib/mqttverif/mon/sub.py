"""Subscriber-side monitors: C06 (inbound PUBLISH), C07 (subscribe/unsubscribe)."""
from . import Out
from .conn import boundary_state, PUBCAP, SUBCAP
from .pub import chain_persistent, BIG


def c06(A):
    o = Out("C06")
    prof = A.cfg.profile
    subcap = prof in SUBCAP
    # inbound QoS 2 exchanges per address: id -> state
    exch = {0: {}, 1: {}}
    ended_clean = []
    for (sev, evs) in A.steps:
        # a clean session ends with its network connection: losses seen in the previous step
        for a_ in ended_clean:
            for st in exch[a_].values():
                st["orphan"] = True
        ended_clean = [e["a"] for e in evs if e["k"] == "lost" and e.get("clean")]
        ins = [e for e in evs if e["k"] == "in"]
        outs = [e for e in evs if e["k"] == "pkt" and e["pkt"] is not None
                and e["pkt"]["t"] in ("PUBACK", "PUBREC", "PUBCOMP")]
        for e in evs:
            if e["k"] == "pkt" and e["pkt"] is not None and e["pkt"]["t"] == "CONNECT" and e["pkt"].get("clean"):
                # a broker that receives a clean-session CONNECT discards its half-finished exchanges
                # (whether or not its CONNACK makes it back).  What the client does with a
                # half-received message is left open (0 or 1 late delivery).
                for st in exch[e["a"]].values():
                    st["orphan"] = True
        cbs = [e for e in evs if e["k"] == "cb" and e["name"] == "onPublish"]
        excs = [e for e in evs if e["k"] == "exc"]
        prompts = {"PUBACK": [], "PUBREC": [], "PUBCOMP": []}
        expect_cb = []      # (pkt) deliveries that must happen in this step, in order
        tainted = bool(excs)
        judged = False
        for e in ins:
            c = A.conns[e["conn"]]
            up = c.up_at(e["i"])
            if e.get("raw"):
                frames = [x["pkt"] for x in e["pkts"] if x["pkt"] is not None and x["tier"] != "structural"]
                if e.get("frame_err") or e.get("rest") or any(x["tier"] == "structural" for x in e["pkts"]):
                    tainted = True      # after a malformed packet the rest of the chunk may legitimately go unprocessed
            else:
                frames = list(e["pkts"])
            if c.clean and c.i_connack_ok == e["i"]:
                pass
            for p in frames:
                if not (up and subcap):
                    # not entitled to anything; also feeds the unprompted check (nothing prompted)
                    continue
                if p["t"] == "PUBLISH":
                    judged = True
                    q = p["qos"]
                    if q == 0:
                        expect_cb.append(p)
                    elif q == 1:
                        expect_cb.append(p)
                        prompts["PUBACK"].append(p["id"])
                    elif q == 2:
                        prompts["PUBREC"].append(p["id"])
                        st = exch[c.a].get(p["id"])
                        if st is None or st.get("orphan"):
                            st = exch[c.a][p["id"]] = {"delivered": 0, "pkt": p, "conn": c.idx}
                elif p["t"] == "PUBREL":
                    judged = True
                    prompts["PUBCOMP"].append(p["id"])
        if not ins:
            if outs and not _reentrant(evs):
                o.bad("unprompted-ack/%s" % outs[0]["pkt"]["t"], "%s written in a step that received nothing" % outs[0]["pkt"]["t"], outs[0])
            continue
        # ---- acknowledgements: exactly the prompted ones, echoing the identifier
        for kind in ("PUBACK", "PUBREC", "PUBCOMP"):
            got = sorted(e["pkt"]["id"] for e in outs if e["pkt"]["t"] == kind)
            want = sorted(prompts[kind])
            if got == want:
                if want:
                    o.dec("acks/" + kind, len(want))
                continue
            extra = list(got)
            for w in want:
                if w in extra:
                    extra.remove(w)
            if extra:
                o.bad("unprompted-ack/%s" % kind, "%s for identifier(s) %r written without a prompt in this step" % (kind, extra), sev)
            elif not tainted:
                missing = list(want)
                for g in got:
                    if g in missing:
                        missing.remove(g)
                sub = ""
                if kind == "PUBCOMP":
                    known = [m for m in missing if m in exch[A.conns[ins[0]["conn"]].a]]
                    sub = "/first" if known else "/repeated-or-unknown"
                o.bad("missing-ack/%s%s" % (kind, sub), "no %s for identifier(s) %r" % (kind, missing), sev)
        # ---- deliveries
        if not A.cfg.onpub:
            continue
        a = A.conns[ins[0]["conn"]].a
        # QoS 2: decide which deliveries belong to exchanges
        q2_cbs = [e for e in cbs if e["args"][2] == 2]
        q01_cbs = [e for e in cbs if e["args"][2] != 2]
        for e in q2_cbs:
            ident = e["args"][5]
            st = exch[a].get(ident)
            if st is None:
                if not tainted:
                    o.bad("qos2-delivery-without-exchange", "QoS 2 message (id %r) delivered with no exchange open" % (ident,), e)
                continue
            st["delivered"] += 1
            o.dec("q2_deliveries")
            if st["delivered"] > 1:
                o.bad("qos2-duplicate-delivery", "QoS 2 message (id %r) delivered %d times in one exchange" % (ident, st["delivered"]), e)
            _cmp(o, e, st["pkt"], allow_dup=True)
        # a PUBREL closes its exchange: by now it must have been delivered exactly once
        for ident in prompts["PUBCOMP"]:
            st = exch[a].pop(ident, None)
            if st is not None and not tainted and not st.get("orphan"):
                o.dec("q2_exchanges")
                if st["delivered"] == 0:
                    o.bad("qos2-not-delivered", "QoS 2 exchange (id %r) completed by PUBREL without delivery" % (ident,), sev)
        # QoS 0/1: one delivery per packet, in order
        if judged and not tainted:
            if len(q01_cbs) != len(expect_cb):
                o.bad("delivery-count/%s" % ("missing" if len(q01_cbs) < len(expect_cb) else "extra"),
                      "%d QoS 0/1 PUBLISH packets, %d onPublish calls" % (len(expect_cb), len(q01_cbs)), sev)
            else:
                for e, p in zip(q01_cbs, expect_cb):
                    o.dec("q01_deliveries")
                    _cmp(o, e, p)
        elif len(q01_cbs) > len(expect_cb) and not tainted:
            o.bad("delivery-count/extra", "onPublish called without a PUBLISH entitling it", sev)
    return o.result()


def _reentrant(evs):
    return any(e["k"] == "api" and e.get("depth") for e in evs)


def _cmp(o, cb, p, allow_dup=False):
    topic, payload, qos, dup, retain, ident = cb["args"]
    want = (p["topic"], p["payload"], p["qos"], p["dup"], p["retain"], p["id"])
    got = (topic, payload, qos, bool(dup), bool(retain), ident)
    names = ("topic", "payload", "qos", "dup", "retain", "msgId")
    for n, g, w in zip(names, got, want):
        if n == "dup" and allow_dup:
            continue
        if g != w:
            o.bad("delivery-field/%s" % n, "onPublish %s=%r, packet carried %r" % (n, _short(g), _short(w)), cb)
            return
    if cb["ttype"] != "str":
        o.bad("delivery-field/topic-type", "topic delivered as %s" % cb["ttype"], cb)
    if cb["ptype"] not in ("bytearray", "bytes"):
        o.bad("delivery-field/payload-type", "payload delivered as %s" % cb["ptype"], cb)


def _short(x):
    return x[:40] if isinstance(x, (bytes, str)) else x


# --------------------------------------------------------------------------- C07

def _expected_topics(r):
    if r.op == "subscribe":
        return [(t, q) for (t, q) in r.info["topics"]]
    return list(r.info["topics"])


def c07(A):
    o = Out("C07")
    prof = A.cfg.profile
    subs = sorted([r for r in A.reqs.values() if r.op in ("subscribe", "unsubscribe") and not r.info.get("raw")],
                  key=lambda r: r.i_call)
    for r in subs:
        c = A.conns[r.conn]
        st = boundary_state(A, c, r.i_call)
        if st != "connected" or prof not in SUBCAP:
            continue          # C14's
        call = A.calls[r.i_call]
        if call["depth"]:
            continue
        win = None
        for w in reversed(c.writes):
            pass
        # window in force: last accepted setWindowSize on this protocol before the call
        win = 1
        for i2, cl in A.calls.items():
            if cl["conn"] == c.idx and cl["op"] == "setWindowSize" and i2 < r.i_call:
                rt = A.rets.get(i2)
                if rt is not None and not rt.get("raised"):
                    win = cl["info"]["n"]
        # awaiting acknowledgement on this connection: requests made on it, and requests of an earlier
        # connection that were sent again on it (an implementation may resume them instead of failing them)
        pend_same_conn = [x for x in subs if x.op == r.op and x.a == r.a and x.i_ret < r.i_call
                          and not x.called_at_return and not x.fired_before(r.i_call)
                          and (x.conn == c.idx or any(e["conn"] == c.idx and e["i"] < r.i_call for e in x.tx))]
        inherited = [x for x in subs if x.op == r.op and x.a == r.a and x.conn < c.idx
                     and not x.called_at_return and not x.fired_before(r.i_call) and x not in pend_same_conn]
        n = len(pend_same_conn)
        o.dec("calls/%s" % r.op)
        wrote = [e for e in A.pkts if e.get("api") == r.i_call]
        if r.called_at_return:
            et = r.fires[0].get("etype") if r.fires else None
            if r.ok():
                o.bad("call-succeeds-at-return/%s" % r.op, "%s() Deferred already succeeded at return" % r.op, call)
            elif et == "MQTTWindowError":
                if n < win:
                    o.bad("window-rejects-early/%s/%s" % (r.op, "inherited" if inherited else "plain"),
                          "%s() refused with MQTTWindowError while %d < window %d requests of this connection await acknowledgement%s"
                          % (r.op, n, win, " (%d left over from an earlier connection)" % len(inherited) if inherited else ""), call)
                if wrote:
                    o.bad("rejected-call-writes/%s" % r.op, "%s() failed with MQTTWindowError but wrote a packet" % r.op, call)
            elif et == "MQTTStateError":
                pass
            else:
                o.bad("valid-call-rejected/%s/%s" % (r.op, et), "%s() with valid arguments failed with %s" % (r.op, et), call)
            continue
        # accepted
        if n >= win and not inherited:
            o.bad("window-not-enforced/%s" % r.op, "%s() accepted while %d >= window %d requests await acknowledgement" % (r.op, n, win), call)
        kind = "SUBSCRIBE" if r.op == "subscribe" else "UNSUBSCRIBE"
        if len(wrote) != 1 or wrote[0]["pkt"] is None or wrote[0]["pkt"]["t"] != kind:
            o.bad("call-writes/%s" % r.op, "%s() wrote %d packets" % (r.op, len(wrote)), call)
        else:
            p = wrote[0]["pkt"]
            want = _expected_topics(r)
            got = [tuple(x) if isinstance(x, (list, tuple)) else x for x in p["topics"]]
            if got != want:
                o.bad("request-topics/%s/%s" % (r.op, r.info["shape"]), "%s names %r, call named %r" % (kind, got[:3], want[:3]), call)
            if p["id"] != r.msgId:
                o.bad("request-id/%s" % r.op, "%s carries identifier %r, Deferred.msgId=%r" % (kind, p["id"], r.msgId), call)
        if len(r.fires) > 1 or any(x["already"] for x in r.attempts):
            o.bad("fired-twice/%s" % r.op, "%s Deferred fired more than once" % r.op, r.fires[-1] if r.fires else call)
        if r.ok():
            f = r.fires[0]
            o.dec("completions/%s" % r.op)
            need = "SUBACK" if r.op == "subscribe" else "UNSUBACK"
            ins = [e for e in A.step_events(f["step"]) if e["k"] == "in" and e["i"] < f["i"]]
            hit = [p for e in ins for p in A.inbound_pkts(e) if p["t"] == need and p.get("id") == r.msgId]
            if not hit:
                o.bad("success-without-ack/%s" % r.op, "%s Deferred succeeded in a step that delivered no %s for identifier %r" % (r.op, need, r.msgId), f)
            elif r.op == "subscribe":
                want = [[cd & 0x7F, bool(cd & 0x80)] for cd in hit[0]["codes"]]
                if f["value"] != want:
                    o.bad("suback-value", "subscribe Deferred value %r, SUBACK carried %r" % (f["value"], want), f)
            elif f["value"] != r.msgId:
                o.bad("unsuback-value", "unsubscribe Deferred value %r, identifier %r" % (f["value"], r.msgId), f)
    # foreign / duplicate acknowledgements change nothing
    for (sev, evs) in A.steps:
        s = sev["s"]
        if s[0] not in ("dupack", "stray", "cross") or s[2] not in ("SUBACK", "UNSUBACK"):
            continue
        ins = [e for e in evs if e["k"] == "in"]
        if not ins:
            continue
        c = A.conns[ins[0]["conn"]]
        if not c.up_at(ins[0]["i"]) or prof not in SUBCAP:
            continue
        # an identifier inherited from an earlier connection is not "foreign"
        ident = ins[0]["pkts"][0]["id"]
        want_op = "subscribe" if s[2] == "SUBACK" else "unsubscribe"
        if any(x.msgId == ident and x.op == want_op and not x.fired_before(ins[0]["i"]) and not x.called_at_return for x in subs):
            continue
        o.dec("noop_acks/" + s[2])
        eff = [x for x in evs if x["k"] in ("write", "fire", "cb", "tcall", "exc", "lost")]
        if eff:
            o.bad("spurious-ack-effect/%s/%s/%s" % (s[0], s[2], eff[0]["k"]), "%s %s caused %s" % (s[0], s[2], eff[0]["k"]), sev)
        elif A.calls_sig(sev["step"] - 1) is not None and A.calls_sig(sev["step"] - 1) != A.calls_sig(sev["step"]):
            o.bad("spurious-ack-effect/%s/%s/timer" % (s[0], s[2]), "%s %s changed the timers" % (s[0], s[2]), sev)
    # end phase: with a broker that answered everything, nothing is pending and fresh calls get in
    if A.i_endmark is not None and prof in SUBCAP:
        for a in (0, 1):
            cur = [c for c in A.conns.values() if c.a == a and c.up_at(A.i_endmark)]
            if not cur:
                continue
            c = cur[0]
            o.dec("endchecks")
            for r in subs:
                if r.a != a or r.called_at_return or r.i_ret > A.i_endmark or r.fired_before(A.i_endmark):
                    continue
                st = boundary_state(A, A.conns[r.conn], r.i_call)
                if st != "connected":
                    continue
                where = "same-connection" if r.conn == c.idx else ("earlier-connection/%s" % ("persistent" if A.conns[r.conn].clean is False else "clean"))
                o.bad("request-pending-forever/%s/%s" % (r.op, where),
                      "%s request (id %r) neither failed nor answered after the broker answered everything it was sent" % (r.op, r.msgId), A.trace[A.i_endmark])
    return o.result()
