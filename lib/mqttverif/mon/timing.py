"""C08 (retransmission) and C13 (silence: no stray timers or writes)."""
from . import Out
from .pub import pub_reqs, delivered_acks, BIG, _nodup

RETX = ("PUBLISH", "PUBREL", "SUBSCRIBE", "UNSUBSCRIBE")


T_EXACT = float(1 << 32)       # virtual seconds up to which time arithmetic on the 2**-20 s grid is exact in float64


def packet_streams(A):
    """Group every retransmittable packet written by identity:
    ('PUBLISH', token) / ('SUBSCRIBE', token) / ('UNSUBSCRIBE', token) /
    ('PUBREL', address, id, exchange token).  -> {key: [pkt events]}"""
    streams = {}
    last_pub_token = {}        # (a, id) -> token of the latest PUBLISH with that id
    for e in A.pkts:
        p = e["pkt"]
        if p is None or p["t"] not in RETX:
            continue
        if p["t"] == "PUBLISH":
            if not p["qos"]:
                continue
            key = ("PUBLISH", e.get("token"), e["a"])
            last_pub_token[(e["a"], p["id"])] = e.get("token")
        elif p["t"] == "PUBREL":
            key = ("PUBREL", last_pub_token.get((e["a"], p["id"])), e["a"], p["id"])
        else:
            key = (p["t"], e.get("token"), e["a"])
        streams.setdefault(key, []).append(e)
    return streams


def _req_of(A, key):
    return A.by_token.get(key[1])


def c08(A):
    o = Out("C08")
    streams = packet_streams(A)
    acks = delivered_acks(A)
    timers = {}            # seq -> timer event
    for e in A.trace:
        if e["k"] == "timer" and e.get("seq") is not None:
            timers[e["seq"]] = e
    for x in A.excs:
        if x["where"] in ("timer", "loopingcall"):
            o.bad("timer-raises/%s/%s" % (x["etype"], (x.get("name") or "?").split(".")[-1]),
                  "%s escaped from a timer callback (%s): %s" % (x["etype"], x.get("name"), x["msg"]), x)
    # Which delayed call is "the packet's own retry timer"?  The one created in the same activation
    # right before the write, or right after it -- whichever reading holds for every retransmittable
    # write of this history (the library arms its alarm consistently on one side of the write).
    allw = [e for txs in streams.values() for e in txs]
    nb = sum(1 for e in allw if e["before"])
    na = sum(1 for e in allw if e["after"])
    side = None
    if allw and nb == len(allw) and na < len(allw):
        side = "before"
    elif allw and na == len(allw) and nb < len(allw):
        side = "after"
    elif allw:
        o.stats["attribution_ambiguous"] = o.stats.get("attribution_ambiguous", 0) + 1

    draws = A.end.get("draws", []) if A.end else []

    def own_draw(e):
        """The jitter drawn for the timer armed with this transmission."""
        n = e.get("ndraws")
        if n is None or side is None:
            return None
        k = n - 1 if side == "before" else n
        return draws[k] if 0 <= k < len(draws) else None

    def own_timer(e):
        if side == "before":
            return e["before"][-1]
        if side == "after":
            return e["after"][0]
        return None

    for key, txs in streams.items():
        kind = key[0]
        r = _req_of(A, key)
        first = txs[0]
        # ---- same content on every transmission
        for e in txs[1:]:
            if _nodup(e["raw"]) != _nodup(first["raw"]):
                o.bad("retransmission-content/%s" % kind, "%s repeated with different content" % kind, e)
                break
        # ---- per connection
        by_conn = {}
        for e in txs:
            by_conn.setdefault(e["conn"], []).append(e)
        first_conn = first["conn"]
        for ci, lst in by_conn.items():
            c = A.conns[ci]
            lvl = c.level
            for n, e in enumerate(lst):
                p = e["pkt"]
                is_first_ever = (e is first)
                o.dec("transmissions/%s" % kind)
                # DUP flag
                if kind == "PUBLISH":
                    want = not is_first_ever
                else:
                    want = (not is_first_ever) and lvl == 3
                    if kind == "PUBREL" and n == 0 and ci == first_conn:
                        want = False
                if bool(p["dup"]) != want:
                    o.bad("dup-flag/%s/%s/%s" % (kind, "v31" if lvl == 3 else "v311", "repeat" if not is_first_ever else "first"),
                          "%s %s carries DUP=%d under protocol level %d" % ("repeated" if not is_first_ever else "first", kind, p["dup"], lvl), e)
                # cause of a repeat
                if not is_first_ever:
                    o.dec("repeats/%s" % kind)
                    if n == 0:
                        # resumed on a later connection: only at that connection's CONNACK
                        if not (e["step"] == c.step_connack_ok and e["i"] > (c.i_connack_ok or BIG)):
                            o.bad("repeat-without-expiry/%s/resume" % kind, "%s of an earlier connection repeated outside the CONNACK step" % kind, e)
                    elif e["cause"] != "timer":
                        sub = "connack" if (e["step"] == c.step_connack_ok) else e["cause"]
                        o.bad("repeat-without-expiry/%s/%s" % (kind, sub), "%s repeated in a step that is not a timer expiry (%s)" % (kind, sub), e)
            # gaps on this connection
            # "configured when it was first sent"; a message held back across a
            # reconnect was configured on another protocol object: either reading is accepted
            t0 = first["timeout"]
            if r is not None and kind == "PUBLISH":
                t0 = min(t0, A.calls[r.i_call]["timeout"])
            gaps = []
            for x, y in zip(lst, lst[1:]):
                if y["t"] > T_EXACT:
                    break       # beyond 2**32 s of virtual time (a back-off grown by factor 3 for dozens of expiries) float64 can no longer hold a few seconds' difference
                g = y["t"] - x["t"]
                gaps.append((g, x, y))
                if g < t0 - 1e-9 - A.cfg.late:
                    sub = "connack" if y["step"] == c.step_connack_ok else "timer"
                    o.bad("retransmission-too-early/%s/%s" % (kind, sub),
                          "%s repeated %.3f s after the previous transmission, initial timeout was %s" % (kind, g, t0), y)
                    break
            if kind == "PUBLISH" and len(gaps) >= 2 and not A.stall_total:     # (a blocked reactor stretches single gaps)
                o.dec("gap_pairs", len(gaps) - 1)
                for (g1, x1, y1), (g2, x2, y2) in zip(gaps, gaps[1:]):
                    if g2 < g1 - 4e-6 - A.cfg.late:      # (a late-running reactor may delay some expiries more than others)
                        fs = c_factors(A, c, r, first)
                        if any(f < 1 for f in fs):
                            sub = "factor<1"          # (was a known finding until fix 32)
                            d1 = d2 = float("nan")
                        else:
                            # only the jitter?  (gap = deterministic part + the draw made when the timer was armed)
                            d1, d2 = own_draw(x1), own_draw(x2)
                            if d1 is not None and d2 is not None and (g2 - d2) >= (g1 - d1) - 4e-6:
                                sub = "jitter-only"
                            else:
                                sub = "deterministic"
                                d1 = d2 = float("nan")
                        o.bad("publish-gap-shrinks/%s" % sub,
                              "PUBLISH retry gaps shrink: %.4f s then %.4f s (jitter draws %.3f, %.3f)" % (g1, g2, d1, d2), y2)
                        break
        # ---- progress: when a packet's own timer expires while it is still outstanding
        #      on a connection that is up, it is written again in that step
        for e in txs:
            seq = own_timer(e)
            if seq is None or seq not in timers:
                continue
            tm = timers[seq]
            c = A.conns[e["conn"]]
            if c.i_lost is not None and c.i_lost < tm["i"]:
                continue
            if c.i_close_req is not None and c.i_close_req < tm["i"]:
                continue
            if r is not None and r.fired_before(tm["i"]):
                continue        # a stale timer: C13's
            if kind == "PUBLISH" and any(y["i"] < tm["i"] and y["pkt"]["t"] == "PUBREL" for y in streams.get(("PUBREL", key[1], key[2], first["pkt"]["id"]), [])):
                continue    # superseded (the C09 monitor judges that)
            o.dec("expiries/%s" % kind)
            again = [y for y in txs if y["step"] == tm["step"] and y["i"] > tm["i"] and y["conn"] == e["conn"]]
            if not again:
                exc = [x for x in A.excs if x["step"] == tm["step"]]
                o.bad("expiry-without-retransmission/%s%s" % (kind, "/raises" if exc else ""),
                      "retry timer of %s expired at t=%.3f but the packet was not written again%s"
                      % (kind, tm["t"], (" (%s)" % exc[0]["etype"]) if exc else ""), tm)
    return o.result()


def c_factors(A, c, r, first):
    """The setBandwith factor(s) that may be in force for a PUBLISH: the one configured when
    publish() was called and the one configured when it was first sent (either reading)."""
    out = []
    points = [(first["conn"], first["i"])]
    if r is not None:
        points.append((A.calls[r.i_call]["conn"], r.i_call))
    for (ci, upto) in points:
        f = 2
        for i2, cl in A.calls.items():
            if cl["conn"] == ci and cl["op"] == "setBandwith" and i2 < upto:
                rt = A.rets.get(i2)
                if rt is not None and not rt.get("raised"):
                    f = cl["info"]["f"]
        out.append(f)
    return out


# --------------------------------------------------------------------------- C13

def c13(A):
    o = Out("C13")
    streams = packet_streams(A)
    # (a) nothing is written for a settled request
    for key, txs in streams.items():
        r = _req_of(A, key)
        if r is None:
            continue
        for e in txs:
            if r.fired_before(e["i"]) and not (e.get("api") == r.i_call):
                how = "failed" if r.failed() else "acknowledged"
                o.bad("write-after-settled/%s/%s" % (key[0], how), "%s written for a request that was already %s" % (key[0], how), e)
                break
    # (b) nothing is written once the loss has been reported
    for c in A.conns.values():
        for wv in c.writes:
            if wv["phase"] in ("losing", "lost"):
                call = A.calls.get(_api_of(A, c, wv))
                o.bad("write-after-loss/%s" % ("reentrant" if call is not None and call["depth"] else wv["cause"]),
                      "write on a transport whose loss was already reported", wv)
                break
    # (c) the delayed-call table after every step
    ondisc = A.cfg.ondisc
    reqs = [r for r in A.reqs.values() if r.op in ("publish", "subscribe", "unsubscribe") and not r.called_at_return]
    connect_reqs = {}
    for c in A.conns.values():
        for call in c.connect_calls:
            rt = A.rets.get(call["i"])
            if rt is not None and "did" in rt and not A.reqs[rt["did"]].called_at_return:
                connect_reqs.setdefault(c.idx, []).append(A.reqs[rt["did"]])
    disc_cbs = {}
    for e in A.cbs:
        if e["name"] == "onDisconnection":
            disc_cbs.setdefault(e["conn"], []).append(e["i"])
    ping_events = {}
    for c in A.conns.values():
        pe = [("req", e["i"], e["t"]) for e in c.pkts if e["pkt"] is not None and e["pkt"]["t"] == "PINGREQ"]
        pe += [("resp", e["i"], e["t"]) for e in c.ins if any(p.get("t") == "PINGRESP" for p in A.inbound_pkts(e))]
        ping_events[c.idx] = sorted(pe, key=lambda x: x[1])
    tx_conn = {}
    for r in reqs:
        tx_conn[r.did] = [(e["i"], e["conn"]) for e in r.tx]
    for key, txs in streams.items():
        if key[0] == "PUBREL":
            r = _req_of(A, key)
            if r is not None and r.did in tx_conn:
                tx_conn[r.did].extend((e["i"], e["conn"]) for e in txs)
    for step_no in sorted(A.snaps):
        sn = A.snaps[step_no]
        i_s = sn["i"]
        total = len(sn["calls"])
        emax = 0
        emin = 0
        all_lost = True
        exact = sn["t"] <= T_EXACT      # (beyond that the ping-deadline arithmetic below is no longer exact: allow both deadlines)
        for c in A.conns.values():
            if c.i_build is None or c.i_build > i_s:
                continue
            lost = c.lost_at(i_s)
            if not lost:
                all_lost = False
                n_out = 0
                for r in reqs:
                    if r.i_ret > i_s or r.fired_before(i_s):
                        continue
                    if any(ci == c.idx and i < i_s for (i, ci) in tx_conn[r.did]):
                        n_out += 1
                emax += n_out
                if c.i_close_req is None or c.i_close_req > i_s:
                    emin += n_out
                if c.i_connack_ok is not None and c.i_connack_ok < i_s and c.keepalive:
                    emax += 1
                    # deadlines of PINGREQs sent since the last PINGRESP and not yet expired (the
                    # next PINGREQ goes out at the very instant the previous deadline expires)
                    open_pings = []
                    for kind, i, t in ping_events[c.idx]:
                        if i < i_s:
                            if kind == "resp":
                                open_pings = open_pings[:-1]   # answers the latest PINGREQ only
                            else:
                                open_pings.append(t)
                    emax += min(2, sum(1 for t in open_pings if not exact or t + c.keepalive >= sn["t"] - A.cfg.late - A.stall_total - 1e-6))
            for r in connect_reqs.get(c.idx, []):
                if r.i_ret < i_s and not r.fired_before(i_s):
                    emax += 1
            if lost and c.has_ondisc and not any(i < i_s for i in disc_cbs.get(c.idx, [])):
                emax += 1
        o.dec("snapshots")
        if total > emax:
            ctx = "after-loss" if all_lost else ("quiescent" if emax == 0 else "busy")
            names = sorted(set(n.split(".")[-1] for (_, n, _) in sn["calls"]))
            o.bad("stale-timer/%s/%s" % (ctx, "+".join(names)),
                  "%d delayed calls pending, at most %d explained by the boundary state: %r" % (total, emax, [(round(t, 3), n) for (t, n, _) in sn["calls"]][:6]),
                  step_no)
            break
        # While anything awaits an acknowledgement on a live connection something must be scheduled to repeat it.
        # (Not "one call per packet": an implementation may multiplex all deadlines behind one wake-up call.)
        need = min(emin, 1)
        if total < need:
            o.bad("missing-timer", "%d packets await acknowledgement on live connections but only %d delayed calls are pending" % (emin, total), step_no)
            break
    # (d) after the final loss and the drain nothing remains
    if A.end is not None:
        last = max(A.snaps) if A.snaps else None
        if last is not None:
            sn = A.snaps[last]
            pend_connect = sum(1 for lst in connect_reqs.values() for r in lst if not r.fires)
            o.dec("final")
            if len(sn["calls"]) > pend_connect:
                names = sorted(set(n.split(".")[-1] for (_, n, _) in sn["calls"]))
                o.bad("timer-after-drain/%s" % "+".join(names), "delayed calls left after every connection was lost and time ran out: %r"
                      % [(round(t, 3), n) for (t, n, _) in sn["calls"]][:6], last)
    return o.result()


def _api_of(A, c, wv):
    for e in c.pkts:
        if e["w"] == wv["i"]:
            return e.get("api")
    return None
