"""Per-property check plans: which monitor decides, which workload families
feed it, budgets, and what counts as having observed enough."""
import itertools
import random

from . import cases as C
from . import gen
from .world import Cfg

_REG = {}


def get(prop):
    if not _REG:
        _load()
    return _REG[prop]


def register(plan):
    _REG[plan.prop] = plan()
    return plan


class Plan(object):
    prop = None
    level = "exploration"
    rule = ""
    assumptions = []
    counts_distinct_in_stats = False
    monitor = None

    def budget(self, tier):
        return 150 if tier == "quick" else 2400

    def max_shards(self, tier):
        return 16

    def min_deciding(self, tier):
        return 50

    def required_counters(self, tier):
        return {}

    def exhaustive(self, tier):
        return None

    def cases(self, tier, seed):
        raise NotImplementedError

    def case_from_replay(self, d):
        return C.session_from_replay(d)

    def shrink(self, rep, sig):
        if rep.get("kind") != "session":
            return rep
        steps = list(rep["steps"])
        cfg = Cfg(**rep["cfg"])

        def fails(cand):
            try:
                r = C.SessionCase("shrink", cfg, steps=cand).run(self.monitor)
            except Exception:
                return False
            return any(v[0] == sig for v in r.violations)

        if not fails(steps):
            rep["shrunk"] = "not reproducible from the step list alone"
            return rep
        runs = 0
        n = 2
        while len(steps) >= 2 and runs < 400:
            chunk = max(1, len(steps) // n)
            reduced = False
            for i in range(0, len(steps), chunk):
                cand = steps[:i] + steps[i + chunk:]
                runs += 1
                if cand and fails(cand):
                    steps = cand
                    n = max(n - 1, 2)
                    reduced = True
                    break
                if runs >= 400:
                    break
            if not reduced:
                if chunk == 1:
                    break
                n = min(len(steps), n * 2)
        rep["steps_original"] = len(rep["steps"])
        rep["steps"] = steps
        rep["shrunk"] = "ddmin, %d runs" % runs
        return rep


SESSION_ASSUMPTIONS = [
    "the two transport models (synchronous loss report; TCP-like asynchronous report with writes still accepted while closing) cover what a Twisted transport can do",
    "virtual reactor: twisted.internet.testing.MemoryReactorClock installed as the global reactor, stepping one delayed call at a time",
    "independent reference codec (lib/mqttverif/refcodec.py) written from the OASIS text decodes every byte written",
    "histories are finite: sampled walks, small-scope sweeps and crash-point sweeps, each ended by a broker that answers everything, loss of every connection and 6000 s of virtual time",
]


class SessionPlan(Plan):
    """Seeded random walks (all flavours/profiles/transports) + plan-specific families."""
    flavours = ("mixed", "pubflow", "subflow", "lossy", "timers")
    profiles = (None,)
    n_quick = 16000
    n_thorough = 500000
    lens = (10, 25, 60)
    assumptions = SESSION_ASSUMPTIONS

    def walk_cases(self, tier, seed, n=None, family="walk"):
        n = n if n is not None else (self.n_quick if tier == "quick" else self.n_thorough)
        for k in range(n):
            rng = random.Random((seed + 1) * 1000003 + k * 7919 + sum(map(ord, self.prop)))
            cfg = self.tune_cfg(gen.random_cfg(rng, profile=rng.choice(self.profiles)), rng)
            yield C.SessionCase("%s/%s" % (family, cfg.profile), cfg,
                                walk={"seed": rng.randrange(1 << 30), "flavour": rng.choice(self.flavours),
                                      "n": rng.choice(self.lens if tier == "quick" else self.lens + (150,)),
                                      "persistent": self.walk_persistent(rng), "keepalive": self.walk_keepalive(rng),
                                      "maxwin": 16})

    def tune_cfg(self, cfg, rng):
        return cfg

    def walk_persistent(self, rng):
        return None

    def walk_keepalive(self, rng):
        return None

    def extra_cases(self, tier, seed):
        return ()

    def cases(self, tier, seed):
        return itertools.chain(self.extra_cases(tier, seed), self.walk_cases(tier, seed))


def sweep_cases(family, cfgs, prelude, alphabet, depth, postlude=()):
    """Every sequence of `depth` steps over `alphabet`, after `prelude`."""
    for cfg in cfgs:
        for d in range(1, depth + 1):
            for combo in itertools.product(alphabet, repeat=d):
                steps = list(prelude)
                for sym in combo:
                    if isinstance(sym, list):
                        steps.extend(sym)
                    else:
                        steps.append(sym)
                yield C.SessionCase(family, cfg, steps=steps + list(postlude))


def crash_cases(family, cfg, base_steps, losses, continuations, stride=1):
    """Cut a base history at every prefix by every loss kind, then continue."""
    for k in range(1, len(base_steps) + 1, stride):
        for loss in losses:
            for cont in continuations:
                yield C.SessionCase(family, cfg, steps=list(base_steps[:k]) + list(loss) + list(cont))


def _load():
    from . import plans_session, plans_codec, plans_diff   # noqa: F401
