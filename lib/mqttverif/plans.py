"""Per-property check plans: which monitor decides, which workload families
feed it, budgets, and what counts as having observed enough."""
import itertools
import random

from . import cases as C
from . import gen
from .world import Cfg

_REG = {}


def get(prop):
    if not _REG:
        _load()
    return _REG[prop]


def register(plan):
    _REG[plan.prop] = plan()
    return plan


class Plan(object):
    prop = None
    level = "exploration"
    rule = ""
    assumptions = []
    counts_distinct_in_stats = False
    monitor = None

    def budget(self, tier):
        return 150 if tier == "quick" else 2400

    def max_shards(self, tier):
        return 16

    def min_deciding(self, tier):
        return 50

    def required_counters(self, tier):
        return {}

    def exhaustive(self, tier):
        return None

    def cases(self, tier, seed):
        raise NotImplementedError

    def case_from_replay(self, d):
        return C.session_from_replay(d)

    def shrink(self, rep, sig):
        if rep.get("kind") != "session":
            return rep
        steps = list(rep["steps"])
        cfg = Cfg(**rep["cfg"])

        def fails(cand):
            try:
                r = C.SessionCase("shrink", cfg, steps=cand).run(self.monitor)
            except Exception:
                return False
            return any(v[0] == sig for v in r.violations)

        if not fails(steps):
            rep["shrunk"] = "not reproducible from the step list alone"
            return rep
        runs = 0
        n = 2
        while len(steps) >= 2 and runs < 400:
            chunk = max(1, len(steps) // n)
            reduced = False
            for i in range(0, len(steps), chunk):
                cand = steps[:i] + steps[i + chunk:]
                runs += 1
                if cand and fails(cand):
                    steps = cand
                    n = max(n - 1, 2)
                    reduced = True
                    break
                if runs >= 400:
                    break
            if not reduced:
                if chunk == 1:
                    break
                n = min(len(steps), n * 2)
        rep["steps_original"] = len(rep["steps"])
        rep["steps"] = steps
        rep["shrunk"] = "ddmin, %d runs" % runs
        return rep


SESSION_ASSUMPTIONS = [
    "the two transport models (synchronous loss report; TCP-like asynchronous report with writes still accepted while closing) cover what a Twisted transport can do",
    "virtual reactor: twisted.internet.testing.MemoryReactorClock installed as the global reactor, stepping one delayed call at a time",
    "independent reference codec (lib/mqttverif/refcodec.py) written from the OASIS text decodes every byte written",
    "histories are finite: sampled walks, small-scope sweeps and crash-point sweeps, each ended by a broker that answers everything, loss of every connection and 6000 s of virtual time",
]


class SessionPlan(Plan):
    """Seeded random walks (all flavours/profiles/transports) + plan-specific families."""
    flavours = ("mixed", "pubflow", "subflow", "lossy", "timers")
    profiles = (None,)
    n_quick = 16000
    n_thorough = 500000
    lens = (10, 25, 60)
    assumptions = SESSION_ASSUMPTIONS
    stalls = True       # a quarter of the walks block the reactor now and then (not for checks that judge exact deadlines)

    def walk_cases(self, tier, seed, n=None, family="walk"):
        n = n if n is not None else (self.n_quick if tier == "quick" else self.n_thorough)
        for k in range(n):
            rng = random.Random((seed + 1) * 1000003 + k * 7919 + sum(map(ord, self.prop)))
            cfg = self.tune_cfg(gen.random_cfg(rng, profile=rng.choice(self.profiles)), rng)
            yield C.SessionCase("%s/%s" % (family, cfg.profile), cfg,
                                walk={"seed": rng.randrange(1 << 30), "flavour": rng.choice(self.flavours),
                                      "n": rng.choice(self.lens if tier == "quick" else self.lens + (150,)),
                                      "persistent": self.walk_persistent(rng), "keepalive": self.walk_keepalive(rng),
                                      "maxwin": 16, "stall": self.stalls and k % 4 == 3})

    def tune_cfg(self, cfg, rng):
        return cfg

    def walk_persistent(self, rng):
        return None

    def walk_keepalive(self, rng):
        return None

    def extra_cases(self, tier, seed):
        return ()

    def cases(self, tier, seed):
        return itertools.chain(self.extra_cases(tier, seed), reentrant_end_cases(), invalid_connect_cases(), long_run_cases(tier), refusal_reaction_cases(), self.walk_cases(tier, seed))


def invalid_connect_cases():
    """connect() with arguments it must refuse (nothing written, state unchanged), followed by ordinary
    use of the same protocol: the refused call must not leave anything behind."""
    bad = [dict(username="u", password=b"pw"), dict(willTopic="w", willMessage=b"m"), dict(keepalive=70000),
           dict(willTopic="w", willMessage="m", willQoS=3), dict(version={"level": 5, "tag": "MQTT"}), dict(willTopic="w"), dict(password="p"),
           dict(username="u" * 65536), dict(willTopic="w" * 65536, willMessage="m")]
    for prof in ("pubsub", "pub", "sub"):
        for kw in bad:
            tail = [("pub", 0, 1), ("sub", 0, "str", 1, 1), ("connect", 0, True, 0, 4), ("pub", 0, 1), ("connack", 0, 0, False), ("pub", 0, 1), ("sub", 0, "str", 1, 0)]
            yield C.SessionCase("invalid-connect", Cfg(profile=prof), steps=[("build", 0), ("call", 0, "connect", ("cid",), kw)] + tail)
            yield C.SessionCase("invalid-connect", Cfg(profile=prof, model="tcp"),
                                steps=[("build", 0), ("call", 0, "connect", ("cid",), kw), ("call", 0, "connect", ("cid",), kw), ("adv", 11)] + tail)
        yield C.SessionCase("invalid-connect", Cfg(profile=prof), steps=[("build", 0), ("call", 0, "connect", ("x" * 24,), dict(version={"level": 3, "tag": "MQIsdp"}))] + tail)


def refusal_reaction_cases():
    """The broker refuses the CONNECT and the application reacts from inside the errback of connect():
    it connects again at once on the same protocol (same transport) or publishes."""
    for react in ("connect", "publish"):
        for model in ("sync", "tcp"):
            for prof in ("pubsub", "pub", "sub"):
                for rc_ in (1, 5):
                    for ka in (0, 5):
                        st = [("build", 0), ("connect", 0, True, ka, 4), ("connack", 0, rc_, False), ("connack", 0, 0, False),
                              ("pub", 0, 1), ("sub", 0, "str", 1, 1), ("adv", 12), ("lose", 0, "done")]
                        yield C.SessionCase("refusal-reaction", Cfg(profile=prof, model=model, re_on_refuse=react), steps=st)


def long_run_cases(tier="quick"):
    """Counts well beyond what the sweeps reach: many reconnects in a row, long queues, many requests
    of one kind, many exchanges interleaved, many keepalive periods.  Shared by all session checks."""
    up = [("build", 0), ("setwin", 0, 2), ("connect", 0, False, 0, 4), ("connack", 0, 0, False)]
    again = [("lose", 0, "lost"), ("build", 0), ("setwin", 0, 2), ("connect", 0, False, 0, 4), ("connack", 0, 0, True)]
    for model in ("sync", "tcp"):
        for lvl in (3, 4):
            cfg = Cfg(profile="pubsub", model=model)
            # a persistent session dragged through 8 reconnects with an exchange in every stage, then acknowledged
            st = [("build", 0), ("setwin", 0, 2), ("connect", 0, False, 0, lvl), ("connack", 0, 0, False),
                  ("pub", 0, 2), ("ack", 0, "PUBREC", "old"), ("pub", 0, 1), ("pub", 0, 2), ("pub", 0, 1), ("inpub", 0, 2)]
            for k in range(8):
                st += [("lose", 0, ("lost", "done")[k % 2]), ("build", 0), ("setwin", 0, 2), ("connect", 0, False, 0, lvl), ("connack", 0, 0, True)]
                if k % 3 == 1:
                    st += [("tick",)]
            st += [("ack", 0, "PUBCOMP", "old"), ("ack", 0, "PUBACK", "old"), ("ack", 0, "PUBREC", "old"), ("ack", 0, "PUBCOMP", "old"),
                   ("ack", 0, "PUBACK", "old"), ("inrel", 0, "known")]
            yield C.SessionCase("long-run/reconnects", cfg, steps=st)
            # 40 messages of mixed QoS behind a window of 1 / 3, acknowledged one at a time
            for win in (1, 3):
                st = [("build", 0), ("setwin", 0, win), ("connect", 0, True, 0, lvl), ("connack", 0, 0, False)]
                st += [("pub", 0, (1, 2, 1, 0, 2)[k % 5]) for k in range(40)]
                for k in range(40):
                    st += [("ack", 0, "PUBACK", "old"), ("ack", 0, "PUBREC", "old"), ("ack", 0, "PUBCOMP", "old")]
                yield C.SessionCase("long-run/queue", cfg, steps=st)
            # a burst of QoS 0 messages (which need no window slot) queued behind a held-back message
            for win, n0 in ((1, 40), (2, 100)):
                st = [("build", 0), ("setwin", 0, win), ("connect", 0, True, 0, lvl), ("connack", 0, 0, False)]
                st += [("pub", 0, 1)] * (win + 1) + [("pub", 0, 0)] * n0 + [("ack", 0, "PUBACK", "old")] * (win + 1)
                yield C.SessionCase("long-run/qos0-burst", cfg, steps=st)
            if tier == "thorough" and model == "sync" and lvl == 4:
                # more messages queued than there are packet identifiers (they are QoS 0 and need none), across a loss and a resumption
                st = [("build", 0), ("setwin", 0, 1), ("connect", 0, False, 0, lvl), ("connack", 0, 0, False), ("pub", 0, 1), ("pub", 0, 1)]
                st += [("pub", 0, 0, False, 0)] * 66000 + [("lose", 0, "lost"), ("build", 0), ("connect", 0, False, 0, lvl), ("connack", 0, 0, True),
                                                          ("ack", 0, "PUBACK", "old"), ("ack", 0, "PUBACK", "old")]
                yield C.SessionCase("long-run/queue-66000", cfg, steps=st)
            # 24 QoS 2 exchanges interleaved under window 16
            st = [("build", 0), ("setwin", 0, 16), ("connect", 0, True, 0, lvl), ("connack", 0, 0, False)] + [("pub", 0, 2)] * 24
            st += [("ack", 0, "PUBREC", "old")] * 24 + [("ack", 0, "PUBCOMP", "new")] * 12 + [("ack", 0, "PUBCOMP", "old")] * 12
            yield C.SessionCase("long-run/qos2", cfg, steps=st)
            # 40 subscribe / unsubscribe requests under window 16, answered newest first, then oldest first
            st = [("build", 0), ("setwin", 0, 16), ("connect", 0, True, 0, lvl), ("connack", 0, 0, False)]
            for k in range(5):
                st += [("sub", 0, ("str", "tuple", "list")[k % 3], 3, k % 3)] * 4 + [("unsub", 0, ("str", "list")[k % 2], 2)] * 4
                st += [("ack", 0, "SUBACK", "new"), ("ack", 0, "UNSUBACK", "new")] * 2 + [("ack", 0, "SUBACK", "old"), ("ack", 0, "UNSUBACK", "old")] * 2
            yield C.SessionCase("long-run/subs", cfg, steps=st)
            # 30 inbound messages of each QoS, the QoS 2 ones released afterwards
            st = [("build", 0), ("connect", 0, True, 0, lvl), ("connack", 0, 0, False)]
            st += [("inpub", 0, k % 3) for k in range(90)] + [("inrel", 0, "known")] * 30
            yield C.SessionCase("long-run/inbound", cfg, steps=st)
            # 24 complete cycles of everything (a leak of one entry or one count per cycle shows under a small window)
            for win, clean in ((1, True), (2, False)):
                st = [("build", 0), ("setwin", 0, win), ("connect", 0, clean, 0, lvl), ("connack", 0, 0, False)]
                for k in range(24):
                    st += [("pub", 0, 1), ("ack", 0, "PUBACK", "old"), ("pub", 0, 2), ("ack", 0, "PUBREC", "old"), ("ack", 0, "PUBCOMP", "old"),
                           ("sub", 0, ("str", "tuple", "list")[k % 3], 2, k % 3), ("ack", 0, "SUBACK", "old"),
                           ("unsub", 0, ("str", "list")[k % 2], 2), ("ack", 0, "UNSUBACK", "old"),
                           ("inpub", 0, 2), ("inrel", 0, "known"), ("inpub", 0, 1), ("pub", 0, 0)]
                    if k % 5 == 4:
                        st += [("pub", 0, 1), ("sub", 0, "str", 1, 1), ("lose", 0, ("lost", "done")[k % 2]), ("build", 0), ("setwin", 0, win),
                               ("connect", 0, clean, 0, lvl), ("connack", 0, 0, not clean), ("ack", 0, "PUBACK", "old")]
                    if k % 7 == 6:
                        st += [("sub", 0, "str", 1, 0)] * (win + 1) + [("ack", 0, "SUBACK", "old")] * (win + 1)     # one refused: window full
                yield C.SessionCase("long-run/cycles", cfg, steps=st)
            # 20 reconnects of a persistent session, each with an inbound QoS 2 exchange open across the loss:
            # (a) released right after the resumption, (b) never released by the broker (stale entries pile up)
            for finish_it in (True, False):
                st = [("build", 0), ("setwin", 0, 4), ("connect", 0, False, 0, lvl), ("connack", 0, 0, False)]
                for k in range(20):
                    st += [("pub", 0, 1), ("ack", 0, "PUBACK", "old"), ("inpub", 0, 2), ("lose", 0, ("lost", "done")[k % 2]), ("build", 0), ("setwin", 0, 4),
                           ("connect", 0, False, 0, lvl), ("connack", 0, 0, True)]
                    if finish_it:
                        st += [("inrel", 0, "known")]
                st += [("pub", 0, 1), ("pub", 0, 2), ("pub", 0, 0), ("ack", 0, "PUBACK", "old"), ("ack", 0, "PUBREC", "old"), ("ack", 0, "PUBCOMP", "old")]
                yield C.SessionCase("long-run/inbound-across-reconnects", cfg, steps=st)
            # 60 keepalive periods, each PINGREQ answered half way, with traffic now and then
            st = [("build", 0), ("connect", 0, True, 2, lvl), ("connack", 0, 0, False)]
            for k in range(60):
                st += [("adv", 1.0), ("pingresp", 0)] + ([("pub", 0, 1), ("ack", 0, "PUBACK", "old")] if k % 7 == 3 else []) + [("adv", 1.0)]
            yield C.SessionCase("long-run/keepalive", cfg, steps=st)


def reentrant_end_cases(places=(None,)):
    """A session with requests in every stage ends (connection loss of a clean session, or a clean
    CONNACK over a persistent one) while the application reacts to the failures from inside its
    errbacks: it publishes again on its current protocol, disconnects, or both.  Shared by all
    session checks."""
    def up(clean, win):
        return [("build", 0), ("setwin", 0, win), ("connect", 0, clean, 0, 4), ("connack", 0, 0, False)]
    stages = [
        lambda cl: up(cl, 2) + [("pub", 0, 1)] * 3,                                                 # 2 in flight, 1 held back
        lambda cl: up(cl, 1) + [("pub", 0, 1), ("pub", 0, 2), ("pub", 0, 1), ("pub", 0, 1)],        # 1 in flight, 3 held back
        lambda cl: up(cl, 2) + [("pub", 0, 2), ("ack", 0, "PUBREC", "old")] * 2 + [("pub", 0, 1)] * 3,   # 2 released, 2 in flight, 1 held back
        lambda cl: up(cl, 2) + [("pub", 0, 1)] * 3 + [("sub", 0, "str", 1, 1), ("unsub", 0, "str", 1)],
    ]
    behaviours = [dict(re_disc_on="fail"), dict(re_pub_on_fail=True), dict(re_disc_on="fail", re_pub_on_fail=True),
                  dict(re_pub_on_fail=True, re_connect_on_disc=True), dict(re_chain=True, re_pub_on_fail=True)]
    for stage in stages:
        for clean1 in (False, True):
            for win2 in (None, 3):
                for clean2 in (True, False):
                    for prepub in (False, True):
                        steps = stage(clean1) + [("lose", 0, "done"), ("build", 0)] + ([("setwin", 0, win2)] if win2 else [])
                        steps += [("connect", 0, clean2, 0, 4)] + ([("pub", 0, 1)] if prepub else [])
                        for place in places:      # (C17) the identifier counter standing just before identifiers of the dying session
                            tail = ([("placeid", place)] if place is not None else []) + [("connack", 0, 0, False), ("adv", 9), ("pub", 0, 1)]
                            for model in ("sync", "tcp"):
                                for kw in behaviours:
                                    yield C.SessionCase("reentrant-end", Cfg(profile="pubsub", model=model, **kw), steps=steps + tail)


def sweep_cases(family, cfgs, prelude, alphabet, depth, postlude=()):
    """Every sequence of `depth` steps over `alphabet`, after `prelude`."""
    for cfg in cfgs:
        for d in range(1, depth + 1):
            for combo in itertools.product(alphabet, repeat=d):
                steps = list(prelude)
                for sym in combo:
                    if isinstance(sym, list):
                        steps.extend(sym)
                    else:
                        steps.append(sym)
                yield C.SessionCase(family, cfg, steps=steps + list(postlude))


def crash_cases(family, cfg, base_steps, losses, continuations, stride=1):
    """Cut a base history at every prefix by every loss kind, then continue."""
    for k in range(1, len(base_steps) + 1, stride):
        for loss in losses:
            for cont in continuations:
                yield C.SessionCase(family, cfg, steps=list(base_steps[:k]) + list(loss) + list(cont))


def _load():
    from . import plans_session, plans_codec, plans_diff   # noqa: F401
