"""Plans for C01/C02 (filled in below)."""
