"""C01 (codec round trip) and C02 (bytes as the specification prescribes).

The deciding step is the real mqtt.pdu code executed on generated inputs:
C01 compares decode(encode(x)) with x and two encodings with each other, with
runtime contracts (icontract, or a plain wrapper when it is not installed) on
the six primitive functions; C02 compares every emitted byte with the
independent reference codec and, in live sessions, with what the API
arguments prescribe."""
import itertools
import random

from . import cases as C
from . import refcodec as rc
from .plans import Plan, SessionPlan, register
from .world import ENV   # installs the virtual reactor before mqtt is imported  # noqa: F401

import mqtt
from mqtt import pdu

LEVELS = {3: mqtt.v31, 4: mqtt.v311}
IDS = (0, 1, 2, 255, 256, 32767, 32768, 65534, 65535)
ONE = "a"
TWO = "é"
THREE = "€"
FOUR = "\U0001f600"


def mkstr(nbytes, ch):
    """A string of exactly nbytes UTF-8 bytes made of ch, padded with 'x'."""
    w = len(ch.encode("utf-8"))
    n = nbytes // w
    s = ch * n
    return s + "x" * (nbytes - n * w)


def string_classes(big=True):
    out = ["", "a", TWO, THREE, FOUR, "a" + TWO + THREE + FOUR, "/", "a/b/+/#", "\u0001", "퟿�\U0010ffff",
           "\ufeffbom-first", "x\ufeff", "\ufeff"]
    for n in (1, 2, 127, 128, 129) + ((16383, 16384, 65534, 65535) if big else ()):
        for ch in (ONE, TWO, THREE, FOUR):
            out.append(mkstr(n, ch))
    return out


class V(object):
    """Violation collector for codec cases."""

    def __init__(self, prop):
        self.prop = prop
        self.v = {}
        self.n = 0
        self.distinct = 0
        self.stats = {}

    def bad(self, sig, msg, inp):
        sig = "%s.%s" % (self.prop, sig)
        if sig not in self.v:
            self.v[sig] = (sig, msg, None, inp)

    def count(self, k, n=1):
        self.stats[k] = self.stats.get(k, 0) + n


class CodecCase(object):
    def __init__(self, family, fn, prop, *args):
        self.family = family
        self.fn = fn
        self.prop = prop
        self.args = args

    def run(self, monitor):
        col = V(self.prop)
        sample = self.fn(col, *self.args)
        r = C.CaseResult()
        r.evals = col.n
        r.stats = dict(col.stats)
        r.stats["deciding"] = col.n
        r.stats["distinct_nontrivial"] = col.distinct
        r.violations = [(s, m, st) for (s, m, st, inp) in col.v.values()]
        r.sample = {"kind": "codec", "family": self.family, "args": list(self.args)[:4], "example": sample}
        if col.v:
            first = list(col.v.values())[0]
            r.replay = {"kind": "codec", "family": self.family, "args": list(self.args), "input": first[3]}
        return r


# ------------------------------------------------------------------ field access

FIELDS = {
    "CONNECT": ("clientId", "keepalive", "cleanStart", "version", "willTopic", "willMessage", "willQoS", "willRetain", "username", "password"),
    "CONNACK": ("session", "resultCode"),
    "PUBLISH": ("qos", "dup", "retain", "topic", "msgId", "payload"),
    "PUBACK": ("msgId",), "PUBREC": ("msgId",), "PUBREL": ("msgId",), "PUBCOMP": ("msgId",), "UNSUBACK": ("msgId",),
    "SUBSCRIBE": ("msgId", "topics"), "SUBACK": ("msgId", "granted"), "UNSUBSCRIBE": ("msgId", "topics"),
    "PINGREQ": (), "PINGRES": (), "DISCONNECT": (),
}


def build(cls, fields):
    o = getattr(pdu, cls)()
    for k, v in fields.items():
        setattr(o, k, v)
    return o


def _bytes(x):
    if x is None:
        return None
    return x.encode("utf-8") if isinstance(x, str) else bytes(x)


def canon(cls, obj_or_fields):
    """Canonical projection: only what is on the wire."""
    g = (lambda k: obj_or_fields.get(k)) if isinstance(obj_or_fields, dict) else (lambda k: getattr(obj_or_fields, k, None))
    if cls == "CONNECT":
        will = g("willTopic") is not None and g("willMessage") is not None
        return {"clientId": g("clientId"), "keepalive": g("keepalive"), "cleanStart": bool(g("cleanStart")),
                "level": (g("version") or {}).get("level"),
                "willTopic": g("willTopic") if will else None,
                "willMessage": (g("willMessage") if isinstance(g("willMessage"), str) else _bytes(g("willMessage"))) if will else None,
                "willQoS": g("willQoS") if will else None, "willRetain": bool(g("willRetain")) if will else None,
                "username": g("username"), "password": _bytes(g("password"))}
    if cls == "CONNACK":
        return {"session": bool(g("session")), "resultCode": g("resultCode")}
    if cls == "PUBLISH":
        q = g("qos")
        return {"qos": q, "dup": bool(g("dup")) if q else False, "retain": bool(g("retain")), "topic": g("topic"),
                "msgId": g("msgId") if q else None, "payload": _bytes(g("payload"))}
    if cls == "SUBSCRIBE":
        return {"msgId": g("msgId"), "topics": [(t, q) for (t, q) in g("topics")]}
    if cls == "SUBACK":
        return {"msgId": g("msgId"), "granted": [(a, bool(b)) for (a, b) in g("granted")]}
    if cls == "UNSUBSCRIBE":
        return {"msgId": g("msgId"), "topics": list(g("topics"))}
    if cls in ("PINGREQ", "PINGRES", "DISCONNECT"):
        return {}
    return {"msgId": g("msgId")}


def to_ref(cls, f):
    """Library field assignment -> reference packet dict."""
    if cls == "CONNECT":
        will = f.get("willTopic") is not None and f.get("willMessage") is not None
        return {"t": "CONNECT", "level": f["version"]["level"], "clean": bool(f["cleanStart"]), "keepalive": f["keepalive"],
                "clientId": f["clientId"], "willTopic": f.get("willTopic") if will else None,
                "willMessage": f.get("willMessage") if will else None, "willQoS": f.get("willQoS") or 0,
                "willRetain": bool(f.get("willRetain")), "username": f.get("username"), "password": f.get("password")}
    if cls == "CONNACK":
        return {"t": "CONNACK", "session": bool(f["session"]), "rc": f["resultCode"]}
    if cls == "PUBLISH":
        return {"t": "PUBLISH", "qos": f["qos"], "dup": bool(f["dup"]) if f["qos"] else False, "retain": bool(f["retain"]),
                "topic": f["topic"], "id": f.get("msgId"), "payload": f["payload"]}
    if cls == "SUBSCRIBE":
        return {"t": "SUBSCRIBE", "id": f["msgId"], "topics": f["topics"]}
    if cls == "SUBACK":
        return {"t": "SUBACK", "id": f["msgId"], "codes": [a | (0x80 if b else 0) for (a, b) in f["granted"]]}
    if cls == "UNSUBSCRIBE":
        return {"t": "UNSUBSCRIBE", "id": f["msgId"], "topics": f["topics"]}
    if cls == "PINGRES":
        return {"t": "PINGRESP"}
    if cls in ("PINGREQ", "DISCONNECT"):
        return {"t": cls}
    return {"t": cls, "id": f["msgId"]}


def from_ref(p):
    """Reference packet dict -> expected canonical library fields."""
    t = p["t"]
    if t == "CONNACK":
        return "CONNACK", {"session": p["session"], "resultCode": p["rc"]}
    if t == "PUBLISH":
        return "PUBLISH", {"qos": p["qos"], "dup": p["dup"], "retain": p["retain"], "topic": p["topic"], "msgId": p["id"], "payload": p["payload"]}
    if t == "SUBACK":
        return "SUBACK", {"msgId": p["id"], "granted": [(c & 0x7F, bool(c & 0x80)) for c in p["codes"]]}
    return t, {"msgId": p["id"]}


def short(x, n=48):
    if isinstance(x, dict):
        return {k: short(v, n) for k, v in x.items()}
    if isinstance(x, (list, tuple)):
        return [short(v, n) for v in list(x)[:6]]
    if isinstance(x, (bytes, bytearray)):
        return {"len": len(x), "head": bytes(x[:n]).hex()}
    if isinstance(x, str) and len(x) > n:
        return {"len_chars": len(x), "head": x[:n]}
    return x


# ------------------------------------------------------------------ packet generators

def gen_packets(tier, seed, big):
    """Yield (class name, field dict) over the boundary classes."""
    rng = random.Random(seed)
    strs = string_classes(big)
    small = [s for s in strs if len(s.encode("utf-8")) <= 200]
    ids = list(IDS) + [rng.randrange(65536) for _ in range(6 if tier == "quick" else 60)]
    for cls in ("PUBACK", "PUBREC", "PUBREL", "PUBCOMP", "UNSUBACK"):
        for i in ids:
            yield cls, {"msgId": i}
    for cls in ("PINGREQ", "PINGRES", "DISCONNECT"):
        yield cls, {}
    for s, rcode in itertools.product((False, True), (0, 1, 5, 6, 128, 255)):
        yield "CONNACK", {"session": s, "resultCode": rcode}
    # PUBLISH: flags x ids x topics x payload kinds, remaining length across the 1/2/3-byte boundaries
    for qos, dup, retain in itertools.product((0, 1, 2), (False, True), (False, True)):
        if not qos and dup:
            continue
        for topic in (small if qos == 1 and not dup else small[:4]):
            for ident in (ids if (qos == 1 and topic == "a") else ids[1:4]):
                for payload in ("", "x" * 3, TWO * 5, bytearray(b""), bytearray(b"\x00\xff\x80binary"), bytearray(range(256))):
                    yield "PUBLISH", {"qos": qos, "dup": dup, "retain": retain, "topic": topic, "msgId": ident if qos else None, "payload": payload}
    targets = [127, 128, 16383, 16384] + ([2097151, 2097152] if big else [])
    for tgt in targets:
        for d in (-1, 0, 1):
            for qos in (0, 1):
                topic = "t/" + TWO
                n = tgt + d - (2 + len(topic.encode("utf-8")) + (2 if qos else 0))
                yield "PUBLISH", {"qos": qos, "dup": False, "retain": False, "topic": topic, "msgId": 7 if qos else None, "payload": bytearray(b"\xa5") * n}
                yield "PUBLISH", {"qos": qos, "dup": False, "retain": True, "topic": topic, "msgId": 7 if qos else None, "payload": "y" * n}
    if big:
        for topic in strs:
            yield "PUBLISH", {"qos": 2, "dup": True, "retain": False, "topic": topic, "msgId": 65535, "payload": bytearray(b"p")}
    # SUBSCRIBE / UNSUBSCRIBE / SUBACK: 1..n entries
    for n in (1, 2, 3, 16, 64, 125, 126, 127, 300):
        for ident in (ids[:5] if n <= 64 else ids[1:2]):
            topics = [(small[(k * 7 + n) % len(small)] or "t", k % 3) for k in range(n)]
            yield "SUBSCRIBE", {"msgId": ident, "topics": topics}
            yield "UNSUBSCRIBE", {"msgId": ident, "topics": [t for (t, _) in topics]}
            yield "SUBACK", {"msgId": ident, "granted": [((k % 3), False) if k % 4 else (0, True) for k in range(n)]}
    if big:
        long_topics = [(mkstr(300, ch) + str(k), k % 3) for k, ch in enumerate([ONE, TWO, THREE, FOUR] * 16)]
        yield "SUBSCRIBE", {"msgId": 40000, "topics": long_topics}           # remaining length > 16383
        yield "UNSUBSCRIBE", {"msgId": 40001, "topics": [t for (t, _) in long_topics]}
        for s in strs[-8:]:
            yield "SUBSCRIBE", {"msgId": 9, "topics": [(s, 1)]}
            yield "UNSUBSCRIBE", {"msgId": 9, "topics": [s]}
    # CONNECT: clean x will x willQoS x willRetain x user x password x version x keepalive
    kas = (0, 1, 255, 256, 65535)
    n = 0
    for lvl, clean, will, user, pw in itertools.product((3, 4), (False, True), (False, True), (False, True), (False, True)):
        if pw and not user:
            continue
        for wq, wr in (itertools.product((0, 1, 2), (False, True)) if will else [(0, False)]):
            n += 1
            ka = kas[n % len(kas)]
            for cid, extra in (("c", "z"), (small[n % len(small)] or "cid", small[(n * 3) % len(small)])):
                yield "CONNECT", {"clientId": cid, "keepalive": ka, "cleanStart": clean, "version": LEVELS[lvl],
                                  "willTopic": ("w/" + extra) if will else None, "willMessage": ("bye " + extra) if will else None,
                                  "willQoS": wq, "willRetain": wr, "username": ("u" + extra) if user else None,
                                  "password": ("p" + extra) if pw else None}
    # a zero-length client id (legal in 3.1.1 with a clean session) with everything else present, each twice in a row,
    # and empty strings in the other fields
    for will, user, pw in ((False, False, False), (True, False, False), (False, True, False), (False, True, True), (True, True, True)):
        for rep in (0, 1):
            yield "CONNECT", {"clientId": "", "keepalive": 30, "cleanStart": True, "version": LEVELS[4],
                              "willTopic": "w" if will else None, "willMessage": ("" if rep else "m") if will else None,
                              "willQoS": 1, "willRetain": False, "username": ("" if rep and not pw else "alice") if user else None,
                              "password": ("secret" if not rep else "") if pw else None}
    # empty strings at the front, in the middle and at the end of topic lists
    for lst in ([""], ["foo", ""], ["", "foo"], ["foo", "", ""], ["foo", "", "bar"], ["", ""]):
        yield "UNSUBSCRIBE", {"msgId": 11, "topics": list(lst)}
        yield "SUBSCRIBE", {"msgId": 12, "topics": [(t, k % 3) for k, t in enumerate(lst)]}
    for ka in kas:
        yield "CONNECT", {"clientId": "k", "keepalive": ka, "cleanStart": True, "version": LEVELS[4], "willTopic": None,
                          "willMessage": None, "willQoS": 0, "willRetain": False, "username": None, "password": None}
    if big:
        for s in strs[-6:]:
            yield "CONNECT", {"clientId": s, "keepalive": 9, "cleanStart": True, "version": LEVELS[4], "willTopic": s, "willMessage": s,
                              "willQoS": 1, "willRetain": True, "username": s, "password": mkstr(200, TWO)}


def packets_batch(col, tier, seed, shard, nshards, mode):
    """mode 'rt': C01 round trip; mode 'spec': C02 byte comparison."""
    sample = None
    seen = set()
    for n, (cls, f) in enumerate(gen_packets(tier, seed, True)):
        if n % nshards != shard:
            continue
        key = C.digest([cls, short(f, 16), len(_bytes(f.get("payload")) or b"") if cls == "PUBLISH" else 0])
        col.n += 1
        if key not in seen:
            seen.add(key)
            col.distinct += 1
        col.count("packets/" + cls)
        try:
            enc1 = build(cls, f).encode()
        except Exception as e:
            col.bad("encode-raises/%s/%s" % (cls, type(e).__name__), "encoding a valid %s raised %r" % (cls, e), short(f))
            continue
        if mode == "rt":
            enc2 = build(cls, f).encode()
            o = build(cls, f)
            enc3 = o.encode()
            enc4 = o.encode()
            if not (enc1 == enc2 == enc3 == enc4):
                col.bad("encode-not-deterministic/%s" % cls, "two encodings of the same %s fields differ" % cls, short(f))
            d = getattr(pdu, cls)()
            try:
                d.decode(bytearray(enc1))
            except Exception as e:
                col.bad("decode-raises/%s/%s" % (cls, type(e).__name__), "decoding an encoded %s raised %r" % (cls, e), short(f))
                continue
            got, want = canon(cls, d), canon(cls, f)
            if got != want:
                diff = [k for k in want if got.get(k) != want[k]]
                col.bad("round-trip/%s/%s" % (cls, diff[0]), "%s.%s: decoded %r, encoded %r" % (cls, diff[0], short(got.get(diff[0])), short(want[diff[0]])), short(f))
        else:
            lvl = f["version"]["level"] if cls == "CONNECT" else 4
            try:
                ref = rc.encode(to_ref(cls, f), lvl)
            except Exception as e:
                col.bad("reference-cannot-encode/%s" % cls, repr(e), short(f))
                continue
            if enc1 != ref:
                k = next((i for i, (a, b) in enumerate(zip(enc1, ref)) if a != b), min(len(enc1), len(ref)))
                col.bad("bytes-differ/%s" % cls, "%s differs from the reference encoding at byte %d: %s vs %s (lengths %d/%d)"
                        % (cls, k, enc1[max(0, k - 4):k + 6].hex(), ref[max(0, k - 4):k + 6].hex(), len(enc1), len(ref)), short(f))
            # broker-bound direction: reference-encoded packets decode to the prescribed fields
            p = to_ref(cls, f)
            if p["t"] in ("CONNACK", "PUBLISH", "PUBACK", "PUBREC", "PUBREL", "PUBCOMP", "SUBACK", "UNSUBACK"):
                name, want = from_ref(_lenient(ref, lvl))
                d = getattr(pdu, cls)()
                try:
                    d.decode(bytearray(ref))
                    got = canon(cls, d)
                    want = canon_from(name, want)
                    if got != want:
                        diff = [k for k in want if got.get(k) != want[k]]
                        col.bad("decode-differs/%s/%s" % (cls, diff[0]), "%s from the broker: field %s decoded as %r, specification says %r"
                                % (cls, diff[0], short(got.get(diff[0])), short(want[diff[0]])), short(f))
                    col.count("broker_packets_decoded")
                except Exception as e:
                    col.bad("decode-raises/%s/%s" % (cls, type(e).__name__), "decoding a well-formed %s raised %r" % (cls, e), short(f))
        if sample is None:
            sample = {"class": cls, "fields": short(f), "encoded_head": enc1[:24].hex(), "encoded_len": len(enc1)}
    return sample


def _lenient(raw, lvl):
    p, _ = rc.decode_lenient(raw, lvl)
    return p


def canon_from(name, want):
    cls = "PINGRES" if name == "PINGRESP" else name
    return canon(cls, want)


# ------------------------------------------------------------------ primitive sweeps (with contracts)

class ContractBroken(Exception):
    pass


def _contracts():
    """Runtime contracts on the real primitive functions.  icontract when
    available, otherwise an equivalent plain wrapper."""
    counts = {"n": 0}

    def post_u16(value, result):
        counts["n"] += 1
        return len(result) == 2 and pdu.decode16Int(result) == int(value)

    def post_len(value, result):
        counts["n"] += 1
        return 1 <= len(result) <= 4 and (result[-1] & 0x80) == 0 and all(b & 0x80 for b in result[:-1])

    def post_str(string, result):
        counts["n"] += 1
        return len(result) >= 2 and result[0] * 256 + result[1] == len(result) - 2

    try:
        import icontract
        e16 = icontract.ensure(post_u16, error=lambda value, result: ContractBroken("encode16Int(%r) -> %r" % (value, bytes(result))))(pdu.encode16Int)
        elen = icontract.ensure(post_len, error=lambda value, result: ContractBroken("encodeLength(%r) -> %r" % (value, bytes(result))))(pdu.encodeLength)
        estr = icontract.ensure(post_str, error=lambda string, result: ContractBroken("encodeString(len %d) -> prefix %r" % (len(string), bytes(result[:2]))))(pdu.encodeString)
        kind = "icontract"
    except Exception:
        def wrap(fn, post, name):
            def w(x):
                r = fn(x)
                if not post(x, r):
                    raise ContractBroken("%s(%r)" % (name, x if not isinstance(x, str) else len(x)))
                return r
            return w
        e16 = wrap(pdu.encode16Int, post_u16, "encode16Int")
        elen = wrap(pdu.encodeLength, post_len, "encodeLength")
        estr = wrap(pdu.encodeString, post_str, "encodeString")
        kind = "plain wrapper"
    return e16, elen, estr, counts, kind


def sweep_u16(col, lo, hi):
    e16, _, _, counts, kind = _contracts()
    for v in range(lo, hi):
        try:
            enc = e16(v)
        except ContractBroken as e:
            col.bad("contract/encode16Int", str(e), v)
            continue
        if pdu.decode16Int(enc) != v or bytes(enc) != rc.enc_u16(v):
            col.bad("u16-round-trip", "decode16Int(encode16Int(%d)) = %d, bytes %s" % (v, pdu.decode16Int(enc), bytes(enc).hex()), v)
    col.n += hi - lo
    col.distinct += hi - lo
    col.count("contract_evaluations", counts["n"])
    col.count("u16", hi - lo)
    return {"domain": "16-bit integers", "range": [lo, hi], "contracts": kind}


def sweep_len(col, lo, hi, step=1, contract_every=1):
    """Remaining-length field.  The hot loop calls the real functions directly;
    the contract wrapper is applied on every `contract_every`-th value."""
    e16, elen, _, counts, kind = _contracts()
    enc, dec = pdu.encodeLength, pdu.decodeLength
    ref = rc.enc_len
    bad = 0
    n = 0
    for v in range(lo, hi, step):
        b = enc(v)
        if dec(b) != v or bytes(b) != ref(v):
            bad += 1
            col.bad("varint-round-trip", "decodeLength(encodeLength(%d)) = %d, bytes %s (reference %s)" % (v, dec(b), bytes(b).hex(), ref(v).hex()), v)
        n += 1
    for v in range(lo, hi, max(step, contract_every)):
        try:
            elen(v)
        except ContractBroken as e:
            col.bad("contract/encodeLength", str(e), v)
    col.n += n
    col.distinct += n
    col.count("contract_evaluations", counts["n"])
    col.count("varint", n)
    return {"domain": "remaining length", "range": [lo, hi], "step": step, "contracts": kind}


def sweep_len_values(col, values):
    _, elen, _, counts, kind = _contracts()
    seen = set()
    for v in values:
        try:
            b = elen(v)
        except ContractBroken as e:
            col.bad("contract/encodeLength", str(e), v)
            continue
        # decoding must also stop at the right byte when more bytes follow
        if pdu.decodeLength(b) != v or pdu.decodeLength(bytearray(b) + b"\x81\x7f") != v or bytes(b) != rc.enc_len(v):
            col.bad("varint-round-trip", "remaining length %d encodes as %s, decodes as %d" % (v, bytes(b).hex(), pdu.decodeLength(b)), v)
        seen.add(v)
    col.n += len(values)
    col.distinct += len(seen)
    col.count("contract_evaluations", counts["n"])
    col.count("varint", len(values))
    return {"domain": "remaining length (boundaries and seeded values)", "n": len(values), "contracts": kind}


def sweep_codepoints(col, lo, hi):
    _, _, estr, counts, kind = _contracts()
    n = 0
    for cp in range(lo, hi):
        if 0xD800 <= cp <= 0xDFFF:
            continue
        s = chr(cp)
        try:
            b = estr(s)
        except ContractBroken as e:
            col.bad("contract/encodeString", str(e), cp)
            continue
        got, rest = pdu.decodeString(bytearray(b) + b"\x00\x01z")
        if got != s or bytes(rest) != b"\x00\x01z" or bytes(b) != rc.enc_str(s):
            col.bad("string-round-trip/codepoint", "U+%04X encodes as %s, decodes as %r" % (cp, bytes(b).hex(), got), cp)
        n += 1
    col.n += n
    col.distinct += n
    col.count("contract_evaluations", counts["n"])
    col.count("codepoints", n)
    return {"domain": "Unicode scalar values as one-character strings", "range": [lo, hi], "contracts": kind}


def sweep_strings(col, seed, nrandom):
    _, _, estr, counts, kind = _contracts()
    rng = random.Random(seed)
    strs = string_classes(True)
    for _ in range(nrandom):
        n = rng.choice([0, 1, 2, 5, 30, 127, 128, 1000])
        strs.append("".join(chr(rng.choice([rng.randrange(0x20, 0x7f), rng.randrange(0x80, 0x800), rng.randrange(0x800, 0xD800),
                                                  rng.randrange(0xE000, 0x10000), rng.randrange(0x10000, 0x110000)])) for _ in range(n)))
    seen = set()
    for s in strs:
        raw = s.encode("utf-8")
        if len(raw) > 65535:
            continue
        try:
            b = estr(s)
        except ContractBroken as e:
            col.bad("contract/encodeString", str(e), short(s))
            continue
        got, rest = pdu.decodeString(bytearray(b) + b"tail")
        if got != s or bytes(rest) != b"tail":
            col.bad("string-round-trip/%d-bytes" % len(raw), "a %d-byte string decodes as %d characters, rest %r" % (len(raw), len(got), bytes(rest[:8])), short(s))
        if bytes(b) != rc.enc_str(s):
            col.bad("string-bytes-differ", "encodeString differs from the reference for a %d-byte string" % len(raw), short(s))
        seen.add(s)
    col.n += len(strs)
    col.distinct += len(seen)
    col.count("contract_evaluations", counts["n"])
    col.count("strings", len(strs))
    return {"domain": "strings at length classes 0,1,2,127,128,129,16383,16384,65534,65535 bytes x 1/2/3/4-byte characters + seeded", "n": len(strs), "contracts": kind}


def unrepresentable(col):
    """C02: fields that cannot be represented must raise ValueError/TypeError."""
    cases = []
    big = "x" * 65536
    big2 = TWO * 32768          # 32768 characters, 65536 bytes
    for s in (big, big2, mkstr(65536, FOUR), "y" * 70000):
        cases.append(("PUBLISH", {"qos": 1, "dup": False, "retain": False, "topic": s, "msgId": 1, "payload": "p"}, "over-long topic"))
        cases.append(("SUBSCRIBE", {"msgId": 1, "topics": [("ok", 0), (s, 1)]}, "over-long topic filter"))
        cases.append(("UNSUBSCRIBE", {"msgId": 1, "topics": [s]}, "over-long topic filter"))
        base = {"clientId": "c", "keepalive": 1, "cleanStart": True, "version": LEVELS[4], "willTopic": None, "willMessage": None,
                "willQoS": 0, "willRetain": False, "username": None, "password": None}
        for fld in ("clientId", "username", "password"):
            f = dict(base)
            f[fld] = s
            if fld == "password":
                f["username"] = "u"
            cases.append(("CONNECT", f, "over-long " + fld))
        f = dict(base)
        f["willTopic"], f["willMessage"] = s, "m"
        cases.append(("CONNECT", f, "over-long willTopic"))
        f = dict(base)
        f["willTopic"], f["willMessage"] = "t", s
        cases.append(("CONNECT", f, "over-long willMessage"))
    for ident in (-1, 65536, 70000, -65536, 1 << 20):
        for cls in ("PUBACK", "PUBREC", "PUBREL", "PUBCOMP", "UNSUBACK"):
            cases.append((cls, {"msgId": ident}, "identifier out of range"))
        cases.append(("PUBLISH", {"qos": 1, "dup": False, "retain": False, "topic": "t", "msgId": ident, "payload": "p"}, "identifier out of range"))
        cases.append(("SUBSCRIBE", {"msgId": ident, "topics": [("t", 0)]}, "identifier out of range"))
        cases.append(("UNSUBSCRIBE", {"msgId": ident, "topics": ["t"]}, "identifier out of range"))
        cases.append(("SUBACK", {"msgId": ident, "granted": [(0, False)]}, "identifier out of range"))
        cases.append(("CONNECT", {"clientId": "c", "keepalive": ident, "cleanStart": True, "version": LEVELS[4], "willTopic": None, "willMessage": None,
                                  "willQoS": 0, "willRetain": False, "username": None, "password": None}, "keepalive out of range"))
    for payload in (5, 5.5, None, b"bytes", [1, 2, 3], [256], (1, 2), {"a": 1}, True, object()):
        for qos in (0, 1):
            cases.append(("PUBLISH", {"qos": qos, "dup": False, "retain": False, "topic": "t", "msgId": 1 if qos else None, "payload": payload}, "payload type"))
    sample = None
    for cls, f, what in cases:
        col.n += 1
        col.distinct += 1
        col.count("unrepresentable/" + what)
        try:
            out = build(cls, f).encode()
        except (ValueError, TypeError) as e:
            if sample is None:
                sample = {"class": cls, "what": what, "raised": type(e).__name__}
            continue
        except Exception as e:
            col.bad("unrepresentable-wrong-exception/%s/%s" % (cls, type(e).__name__), "%s with %s raised %r" % (cls, what, e), short(f))
            continue
        col.bad("unrepresentable-emits-bytes/%s/%s" % (cls, what.replace(" ", "-")), "%s with %s encoded to %d bytes (%s...)" % (cls, what, len(out), bytes(out[:12]).hex()), short(f))
    return sample


def huge_publish(col, mode):
    """The 256 MiB end of the remaining-length domain (thorough only)."""
    topic = "t"
    n = 268435455 - (2 + 1 + 2)
    f = {"qos": 1, "dup": False, "retain": False, "topic": topic, "msgId": 3, "payload": bytearray(n)}
    col.n += 2
    col.distinct += 2
    enc = build("PUBLISH", f).encode()
    if enc[:5] != b"\x32\xff\xff\xff\x7f" or len(enc) != 268435455 + 5:
        col.bad("bytes-differ/PUBLISH/max-remaining-length", "header %s length %d" % (enc[:5].hex(), len(enc)), "256 MiB payload")
    if mode == "rt":
        d = pdu.PUBLISH()
        d.decode(bytearray(enc))
        if d.msgId != 3 or d.topic != "t" or len(d.payload) != n:
            col.bad("round-trip/PUBLISH/max-remaining-length", "decoded id %r topic %r payload %d" % (d.msgId, d.topic, len(d.payload)), "256 MiB payload")
        del d
    del enc
    f["payload"] = bytearray(n + 1)
    try:
        build("PUBLISH", f).encode()
        col.bad("unrepresentable-emits-bytes/PUBLISH/remaining-length-overflow", "a PUBLISH of 268435456 bytes was encoded", "256 MiB + 1")
    except ValueError:
        pass
    return {"class": "PUBLISH", "remaining_length": 268435455}


# ------------------------------------------------------------------ plans

class CodecPlan(Plan):
    counts_distinct_in_stats = True
    mode = "rt"
    assumptions = ["inputs are generated by the rig: exhaustive primitive domains and boundary classes, not every field combination of every packet",
                   "reference codec lib/mqttverif/refcodec.py (validated against the worked examples of the OASIS text) is the byte oracle"]

    def budget(self, tier):
        return 120 if tier == "quick" else 1800

    def min_deciding(self, tier):
        return 100000

    def primitive_cases(self, tier, seed):
        P = self.prop
        for lo in range(0, 65536, 8192):
            yield CodecCase("u16-exhaustive", sweep_u16, P, lo, lo + 8192)
        for lo in range(0, 0x110000, 0x8000):
            yield CodecCase("codepoints-exhaustive", sweep_codepoints, P, lo, min(lo + 0x8000, 0x110000))
        yield CodecCase("strings", sweep_strings, P, seed, 300 if tier == "quick" else 5000)
        rng = random.Random(seed + 3)
        vals = []
        for b in (0, 128, 16384, 2097152, 268435456):
            vals.extend(v for v in range(b - 3, b + 4) if 0 <= v <= 268435455)
        vals.extend(rng.randrange(268435456) for _ in range(20000))
        vals.extend(rng.randrange(1 << rng.randrange(1, 28)) for _ in range(20000))
        for i in range(0, len(vals), 5000):
            yield CodecCase("varint-sampled", sweep_len_values, P, vals[i:i + 5000])
        if tier == "quick":
            # the complete 1-, 2- and 3-byte domain, and every 4-byte value on a stride
            for lo in range(0, 2097152, 131072):
                yield CodecCase("varint-exhaustive-1to3bytes", sweep_len, P, lo, lo + 131072, 1, 64)
            for lo in range(2097152, 268435456, 16777216):
                yield CodecCase("varint-strided-4bytes", sweep_len, P, lo, min(lo + 16777216, 268435456), 127, 127 * 64)
        else:
            chunk = 1 << 21
            for lo in range(0, 268435456, chunk):
                yield CodecCase("varint-exhaustive", sweep_len, P, lo, lo + chunk, 1, 4096)

    def packet_cases(self, tier, seed):
        n = 16
        for sh in range(n):
            yield CodecCase("packets", packets_batch, self.prop, tier, seed, sh, n, self.mode)

    def exhaustive(self, tier):
        d = ["16-bit integers 0..65535", "Unicode scalar values U+0000..U+10FFFF as one-character strings",
             "remaining length 0..2097151 (all 1-, 2- and 3-byte encodings)"]
        if tier == "thorough":
            d.append("remaining length 0..268435455 (complete)")
        return d

    def case_from_replay(self, d):
        raise SystemExit("codec replays carry their input in the file: %r" % (d.get("input"),))

    def shrink(self, rep, sig):
        return rep


@register
class P01(CodecPlan):
    prop = "C01"
    mode = "rt"
    rule = ("inputs = exhaustive primitive domains (all 16-bit integers, all Unicode scalar values, remaining lengths: complete 1-3 byte range + strided/sampled 4-byte range in quick, "
            "complete 0..268435455 in thorough) + strings at every length class x 1/2/3/4-byte characters + packets of all 14 types over flag combinations, identifier and keepalive "
            "boundaries, 1..64 topic entries, str and bytearray payloads placing the remaining length on both sides of the 1/2/3-byte boundaries; every input is a distinct value and "
            "is non-trivial (it is encoded, decoded and compared); distinct_nontrivial counts distinct inputs")

    def required_counters(self, tier):
        return {"u16": 65536, "codepoints": 1112064, "varint": 2000000, "packets/PUBLISH": 500, "packets/CONNECT": 100,
                "contract_evaluations": 1000000}

    def cases(self, tier, seed):
        for c in self.primitive_cases(tier, seed):
            yield c
        for c in self.packet_cases(tier, seed):
            yield c
        if tier == "thorough":
            yield CodecCase("publish-256MiB", huge_publish, self.prop, "rt")


def c02_live(A):
    """Every packet written in a live session is byte for byte what the
    reference encoder produces from the API arguments, the identifier on the
    returned Deferred and the DUP flag observed."""
    from .mon import Out
    from .mon.conn import connect_fields_match
    o = Out("C02")
    for e in A.pkts:
        p = e["pkt"]
        if p is None:
            o.bad("live/unparseable", "bytes written that the reference decoder cannot frame: %r" % e["raw"][:16], e)
            continue
        o.dec("live_packets")
        lvl = e["level"]
        try:
            ref = rc.encode(p, lvl)
        except Exception as ex:
            o.bad("live/reference-cannot-encode/%s" % p["t"], repr(ex), e)
            continue
        if ref != e["raw"]:
            o.bad("live/bytes-differ/%s" % p["t"], "%s on the wire %s, reference encoding of its own fields %s" % (p["t"], e["raw"][:12].hex(), ref[:12].hex()), e)
        tok = e.get("token")
        r = A.by_token.get(tok) if tok is not None else None
        if p["t"] == "PUBLISH" and r is not None and r.op == "publish":
            info = r.info
            want = {"t": "PUBLISH", "qos": info["qos"], "retain": bool(info["retain"]), "topic": info["topic"], "payload": info["payload"],
                    "dup": p["dup"], "id": r.msgId if info["qos"] else None}
            try:
                if rc.encode(want, lvl) != e["raw"]:
                    o.bad("live/fields-differ/PUBLISH", "PUBLISH on the wire is not the encoding of the publish() arguments", e)
                o.dec("live_api_compared")
            except Exception:
                pass
        elif p["t"] in ("SUBSCRIBE", "UNSUBSCRIBE") and r is not None and r.op in ("subscribe", "unsubscribe"):
            want = {"t": p["t"], "id": r.msgId, "dup": p["dup"], "topics": r.info["topics"]}
            if rc.encode(want, lvl) != e["raw"]:
                o.bad("live/fields-differ/%s" % p["t"], "%s on the wire is not the encoding of the call's arguments" % p["t"], e)
            o.dec("live_api_compared")
        elif p["t"] == "CONNECT":
            call = A.calls.get(e.get("api"))
            if call is not None and call["op"] == "connect":
                m = connect_fields_match(p, call["info"])
                if m and not call["info"].get("invalid"):
                    o.bad("live/fields-differ/CONNECT", m, e)
                o.dec("live_api_compared")
        if e["bad"] is not None and e["bad"] != "wildcard or NUL in topic name":
            o.bad("live/nonconformant/%s" % p["t"], "%s: %s" % (p["t"], e["bad"]), e)
    return o.result()


@register
class P02(CodecPlan, SessionPlan):
    prop = "C02"
    mode = "spec"
    monitor = staticmethod(c02_live)
    n_quick = 8000
    n_thorough = 300000
    rule = ("inputs = the C01 input space for protocol levels 3 and 4 compared byte for byte with the reference encoder, reference-encoded broker packets decoded by the library, "
            "unrepresentable inputs (over-long strings, out-of-range identifiers/keepalives, wrong payload types), and every packet written in seeded session walks re-derived from "
            "the API arguments (covers in-place DUP patching); distinct_nontrivial counts distinct inputs plus distinct session histories that wrote at least one packet")
    assumptions = CodecPlan.assumptions + SessionPlan.assumptions[:2]

    def required_counters(self, tier):
        return {"packets/PUBLISH": 500, "packets/CONNECT": 100, "broker_packets_decoded": 500, "live_packets": 20000, "live_api_compared": 5000,
                "unrepresentable/payload type": 10, "unrepresentable/over-long topic": 4}

    def cases(self, tier, seed):
        for c in self.packet_cases(tier, seed):
            yield c
        yield CodecCase("unrepresentable", lambda col: unrepresentable(col), self.prop)
        rng = random.Random(seed + 3)
        vals = [v for b in (0, 128, 16384, 2097152, 268435456) for v in range(b - 3, b + 4) if 0 <= v <= 268435455]
        vals.extend(rng.randrange(268435456) for _ in range(20000))
        yield CodecCase("varint-sampled", sweep_len_values, self.prop, vals)
        for lo in range(0, 65536, 16384):
            yield CodecCase("u16-exhaustive", sweep_u16, self.prop, lo, lo + 16384)
        yield CodecCase("strings", sweep_strings, self.prop, seed, 300 if tier == "quick" else 3000)
        for c in LiveWalks(self).cases(tier, seed):
            yield c
        if tier == "thorough":
            yield CodecCase("publish-256MiB", huge_publish, self.prop, "spec")

    def case_from_replay(self, d):
        if d.get("kind") == "session":
            return C.session_from_replay(d)
        return CodecPlan.case_from_replay(self, d)

    def shrink(self, rep, sig):
        if rep.get("kind") == "session":
            return SessionPlan.shrink(self, rep, sig)
        return rep


class LiveWalks(object):
    """Session walks whose result is folded into the codec plan's counters."""

    def __init__(self, plan):
        self.plan = plan

    def cases(self, tier, seed):
        for c in SessionPlan.walk_cases(self.plan, tier, seed):
            yield LiveCase(c)


class LiveCase(object):
    def __init__(self, inner):
        self.inner = inner
        self.family = "live-session"

    def run(self, monitor):
        r = self.inner.run(monitor)
        r.stats = dict(r.stats)
        r.stats["distinct_nontrivial"] = 1 if r.keys else 0
        return r
