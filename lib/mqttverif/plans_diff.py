"""Differential checks: C03 (chunking), C19 (address independence), C20 (argument
validation with a twin history)."""
import itertools
import random

from . import cases as C
from . import gen
from . import refcodec as rc
from .plans import Plan, SessionPlan, register
from .world import World, Cfg, token_of
from .analysis import Analysis
from .mon import Out
from .mon.pub import c17
from .plans_session import connected, MODELS


# ------------------------------------------------------------------ observation logs

def obs_log(trace, from_step, addr=None, canonical=False):
    """Ordered log of everything observable after step `from_step`."""
    out = []
    ids, dids = {}, {}

    def cid(i):
        if not canonical or not isinstance(i, int):
            return i
        return ids.setdefault(i, "id%d" % len(ids))

    def cdid(d):
        if not canonical:
            return d
        return dids.setdefault(d, "d%d" % len(dids))

    conn_addr = {}
    for e in trace:
        if e["k"] == "build":
            conn_addr[e["conn"]] = e["a"]
    for e in trace:
        if e["step"] < from_step:
            continue
        k = e["k"]
        a = e.get("a", conn_addr.get(e.get("conn")))
        if addr is not None and a != addr and k not in ("end",):
            continue
        t = round(e["t"], 6)
        if k == "pkt":
            p = e["pkt"]
            if p is None:
                out.append(("wire-bad", t, e["raw"]))
            elif canonical:
                q = dict(p)
                if "id" in q and p["t"] in ("PUBLISH", "PUBREL", "SUBSCRIBE", "UNSUBSCRIBE"):
                    q["id"] = cid(q["id"])
                out.append(("wire", t, e["phase"], tuple(sorted((kk, repr(v)) for kk, v in q.items()))))
            else:
                out.append(("wire", t, e["phase"], e["raw"]))
        elif k == "write" and not canonical:
            out.append(("write", t, e["data"]))
        elif k == "fire":
            v = e.get("value") if e["ok"] else e.get("etype")
            if canonical and e["ok"] and e["op"] in ("publish", "unsubscribe") and isinstance(v, int):
                v = cid(v)
            out.append(("fire", t, cdid(e["did"]), e["op"], e["ok"], repr(v)))
        elif k == "api_ret":
            if "did" in e:
                m = e["msgId"]
                out.append(("ret", t, cdid(e["did"]), e["op"], e["called"], cid(m) if isinstance(m, int) else m))
            else:
                out.append(("ret", t, e["op"], e.get("raised"), repr(e.get("ret"))))
        elif k == "cb":
            out.append(("cb", t, e["name"], repr(e.get("args")), e.get("reason")))
        elif k == "tcall":
            out.append(("tcall", t, e["what"]))
        elif k == "lost":
            out.append(("lost", t, e["reason"]))
        elif k == "exc":
            out.append(("exc", t, e["where"], e["etype"]))
    return out


def first_diff(a, b):
    for n, (x, y) in enumerate(zip(a, b)):
        if x != y:
            return n, x, y
    if len(a) != len(b):
        n = min(len(a), len(b))
        return n, (a[n] if n < len(a) else None), (b[n] if n < len(b) else None)
    return None


def calls_of(trace):
    for e in reversed(trace):
        if e["k"] == "snap":
            return sorted((round(t, 6), n) for (t, n, _) in e["calls"])
    return []


# ------------------------------------------------------------------ C03

BUSY = [("build", 0), ("setwin", 0, 4), ("connect", 0, True, 60, 4), ("connack", 0, 0, False),
        ("pub", 0, 1), ("pub", 0, 2), ("pub", 0, 2), ("ack", 0, "PUBREC", "old"), ("sub", 0, "list", 2, 1),
        ("unsub", 0, "str", 1), ("pub", 0, 1)]
CONNECTING = [("build", 0), ("setwin", 0, 4), ("connect", 0, False, 30, 4), ("pub", 0, 1), ("pub", 0, 2)]
PRELUDES = {"busy": BUSY, "connecting": CONNECTING}

# packet specs resolved against the shadow broker of the world after the prelude
SPECS = {
    "puback": ("ack", "PUBACK", 0), "puback2": ("ack", "PUBACK", 1), "pubrec": ("ack", "PUBREC", 0), "pubcomp": ("ack", "PUBCOMP", 0),
    "suback": ("ack", "SUBACK", 0), "unsuback": ("ack", "UNSUBACK", 0), "pingresp": ("pkt", {"t": "PINGRESP"}),
    "connack": ("pkt", {"t": "CONNACK", "rc": 0, "session": False}),
    "q0": ("pub", 0, 1, 0), "q0e": ("pub", 0, 2, -8), "q1": ("pub", 1, 3, 4), "q2": ("pub", 2, 5, 2), "rel": ("pkt", {"t": "PUBREL", "id": 5}),
    "q1_2b": ("pub", 1, 6, 130), "q0_3b": ("pub", 0, 7, 16400), "q2_3b": ("pub", 2, 8, 16384), "q1_4b": ("pub", 1, 9, 2097152),
    "stray": ("pkt", {"t": "PUBACK", "id": 40000}),
    # remaining length exactly 128 / 256 / 16384: the length field starts with a 0x80 byte
    "r128": ("pubR", 0, 1, 128), "r256": ("pubR", 1, 2, 256), "r16384": ("pubR", 2, 3, 16384), "r384": ("pubR", 1, 4, 384),
}


def resolve(w, names):
    out = []
    for nm in names:
        sp = SPECS[nm]
        if sp[0] == "pkt":
            out.append(dict(sp[1]))
        elif sp[0] == "ack":
            ids = w.outstanding(0, sp[1], cur_only=False) if sp[1] != "PUBACK" or True else []
            c = w.live.get(0)
            if not ids:      # before CONNACK the shadow answers nothing: take what was seen on the wire
                sh = w.shadow[0]
                if sp[1] == "PUBACK":
                    ids = [i for i, v in sh.pub.items() if v["qos"] == 1 and v["state"] == "sent"]
                elif sp[1] == "PUBREC":
                    ids = [i for i, v in sh.pub.items() if v["qos"] == 2 and v["state"] == "sent"]
                elif sp[1] == "PUBCOMP":
                    ids = [i for i, v in sh.pub.items() if v["state"] == "rel"]
                elif sp[1] == "SUBACK":
                    ids = list(sh.sub)
                else:
                    ids = list(sh.unsub)
            ident = ids[sp[2] % len(ids)] if ids else 39000
            p = {"t": sp[1], "id": ident}
            if sp[1] == "SUBACK":
                p["codes"] = [1, 0x80]
            out.append(p)
        elif sp[0] == "pubR":
            _, qos, ident, remaining = sp
            topic = "in/é/%d" % ident
            n = remaining - (2 + len(topic.encode("utf-8")) + (2 if qos else 0))
            out.append({"t": "PUBLISH", "qos": qos, "dup": False, "retain": False, "topic": topic,
                        "id": ident if qos else None, "payload": (b"~9%05d~" % ident + b"r" * n)[:n]})
        else:
            _, qos, ident, size = sp
            payload = b"~9%05d~" % ident + (b"z" * size if size >= 0 else b"")
            if size < 0:
                payload = b""
            out.append({"t": "PUBLISH", "qos": qos, "dup": False, "retain": bool(ident & 1), "topic": "in/é/%d" % ident,
                        "id": ident if qos else None, "payload": payload})
    return out


def compositions(n):
    """All 2^(n-1) ways to cut n bytes into consecutive chunks."""
    for mask in range(1 << (n - 1)):
        yield [i + 1 for i in range(n - 1) if mask >> i & 1]


class ChunkCase(object):
    def __init__(self, family, cfg, pname, names, cutsets):
        self.family, self.cfg, self.pname, self.names, self.cutsets = family, cfg, pname, names, cutsets

    def _run(self, cuts, pkts=None):
        w = World(self.cfg)
        pre = PRELUDES[self.pname]
        for s in pre:
            w.step(s)
        if pkts is None:
            pkts = resolve(w, self.names)
        data = b"".join(rc.encode(p, 4) for p in pkts)
        if cuts == "packets":
            cuts, pos = [], 0
            for p in pkts[:-1]:
                pos += len(rc.encode(p, 4))
                cuts.append(pos)
        w.step(("stream", 0, pkts, list(cuts)))
        w.step(("adv", 20))
        return w, pkts, len(data)

    def run(self, monitor):
        r = C.CaseResult()
        w0, pkts, n = self._run("packets")
        base = obs_log(w0.trace, len(PRELUDES[self.pname]))
        base_calls = calls_of(w0.trace)
        cutsets = self.cutsets(n, pkts) if callable(self.cutsets) else self.cutsets
        stats = {"deciding": 0, "compositions": 0, "distinct_nontrivial": 0, "stream_bytes": n}
        effects = sum(1 for x in base if x[0] in ("wire", "fire", "cb", "tcall"))
        for cuts in cutsets:
            cuts = [c for c in cuts if 0 < c < n]
            w, _, _ = self._run(cuts, pkts)
            log = obs_log(w.trace, len(PRELUDES[self.pname]))
            stats["compositions"] += 1
            stats["deciding"] += 1
            if effects:
                stats["distinct_nontrivial"] += 1
            d = first_diff(base, log)
            if d is None and calls_of(w.trace) != base_calls:
                d = ("timers", base_calls[:4], calls_of(w.trace)[:4])
            if d is not None:
                kind = d[1][0] if isinstance(d[1], tuple) else ("missing" if d[1] is None else str(d[0]))
                sig = "C03.chunking-changes-behaviour/%s/%s" % (self.pname, kind if d[0] != "timers" else "timers")
                if not r.violations:
                    r.violations.append((sig, "stream %s cut at %r behaves differently from one packet per chunk: entry %s: %r vs %r"
                                         % ("+".join(self.names), cuts[:8], d[0], _s(d[1]), _s(d[2])), len(PRELUDES[self.pname])))
                    r.replay = {"kind": "chunk", "family": self.family, "cfg": self.cfg.asdict(), "prelude": self.pname,
                                "names": list(self.names), "cuts": cuts}
        r.evals = stats["compositions"]
        r.stats = stats
        r.sample = {"kind": "chunk", "prelude": self.pname, "stream": list(self.names), "bytes": n,
                    "compositions_in_case": stats["compositions"], "baseline_effects": effects}
        return r


class TimedChunkCase(ChunkCase):
    """The chunks arrive at different times, with timers (keepalive tick, retry timers) firing between
    them.  Baseline: every packet delivered whole at the instant its last byte arrives."""

    def __init__(self, family, cfg, pname, names, cutsets, wait, gap):
        ChunkCase.__init__(self, family, cfg, pname, names, cutsets)
        self.wait, self.gap = wait, gap

    def _run(self, cuts, pkts=None, whole=False):
        w = World(self.cfg)
        for s in PRELUDES[self.pname]:
            w.step(s)
        if pkts is None:
            pkts = resolve(w, self.names)
        raws = [rc.encode(p, 4) for p in pkts]
        data = b"".join(raws)
        cuts = sorted(set(c for c in cuts if 0 < c < len(data)))
        bounds = list(zip([0] + cuts, cuts + [len(data)]))
        ends, pos = [], 0
        for r_ in raws:
            pos += len(r_)
            ends.append(pos)
        w.step(("adv", self.wait))
        for (i, j) in bounds:
            if whole:
                blob = b"".join(r_ for r_, e in zip(raws, ends) if i < e <= j)
            else:
                blob = data[i:j]
            if blob:
                w.step(("raw", 0, blob))
            w.step(("adv", self.gap))
        w.step(("adv", 20))
        return w, pkts, len(data)

    def run(self, monitor):
        r = C.CaseResult()
        w0, pkts, n = self._run([], None)
        cutsets = self.cutsets(n, pkts) if callable(self.cutsets) else self.cutsets
        stats = {"deciding": 0, "compositions": 0, "distinct_nontrivial": 0, "stream_bytes": n, "timed_compositions": 0}
        for cuts in cutsets:
            cuts = [c for c in cuts if 0 < c < n]
            wb, _, _ = self._run(cuts, pkts, whole=True)
            base = obs_log(wb.trace, len(PRELUDES[self.pname]))
            w, _, _ = self._run(cuts, pkts)
            log = obs_log(w.trace, len(PRELUDES[self.pname]))
            stats["compositions"] += 1
            stats["timed_compositions"] += 1
            stats["deciding"] += 1
            if any(x[0] in ("wire", "fire", "cb", "tcall") for x in base):
                stats["distinct_nontrivial"] += 1
            base = [x for x in base if x[0] != "write"]       # (chunk boundaries differ by construction: compare decoded packets, not writes)
            log = [x for x in log if x[0] != "write"]
            d = first_diff(base, log)
            if d is None and calls_of(w.trace) != calls_of(wb.trace):
                d = ("timers", calls_of(wb.trace)[:4], calls_of(w.trace)[:4])
            if d is not None and not r.violations:
                kind = d[1][0] if isinstance(d[1], tuple) else ("missing" if d[1] is None else str(d[0]))
                sig = "C03.chunking-changes-behaviour/%s/timed/%s" % (self.pname, kind if d[0] != "timers" else "timers")
                r.violations.append((sig, "stream %s cut at %r with %.2f s between the chunks behaves differently from whole packets arriving when their last byte does: entry %s: %r vs %r"
                                     % ("+".join(self.names), cuts[:8], self.gap, d[0], _s(d[1]), _s(d[2])), len(PRELUDES[self.pname])))
                r.replay = {"kind": "chunk", "family": self.family, "cfg": self.cfg.asdict(), "prelude": self.pname,
                            "names": list(self.names), "cuts": cuts, "timed": [self.wait, self.gap]}
        r.evals = stats["compositions"]
        r.stats = stats
        r.sample = {"kind": "chunk", "prelude": self.pname, "stream": list(self.names), "bytes": n, "timed": [self.wait, self.gap],
                    "compositions_in_case": stats["compositions"]}
        return r


def _s(x):
    s = repr(x)
    return s if len(s) < 160 else s[:160] + "..."


def all_cuts(n, pkts):
    return compositions(n)


def k_cuts(k, limit=None, seed=0):
    def f(n, pkts):
        combos = itertools.combinations(range(1, n), k)
        if limit is None:
            return combos
        rng = random.Random(seed + n)
        allc = list(itertools.islice(combos, 200000))
        rng.shuffle(allc)
        return allc[:limit]
    return f


def header_cuts(n, pkts):
    """Every cut (and pair of cuts) inside the fixed header + length field of every packet, plus bytewise."""
    pos = 0
    spots = []
    for p in pkts:
        raw = rc.encode(p, 4)
        used = rc.dec_len(raw, 1)[1]     # bytes of the length field
        hdr = 1 + used + 2
        for k in range(0, min(hdr + 3, len(raw)) + 1):
            if 0 < pos + k < n:
                spots.append(pos + k)
        pos += len(raw)
    spots = sorted(set(spots))
    for s in spots:
        yield [s]
    for a, b in itertools.combinations(spots, 2):
        yield [a, b]
    yield spots
    if n <= 5000:
        yield list(range(1, n))


def length_cuts(n, pkts):
    """Chunk ends at the places a naive reading of the header bytes would take for the end of a
    packet (a length byte taken with its continuation bit, without its successors, off by one ...),
    each with the chunk starting at the packet boundary (receive buffer empty) and in mid-stream."""
    pos = 0
    for p in pkts:
        raw = rc.encode(p, 4)
        cands = set()
        for b in (raw[1], raw[1] & 0x7F) + ((raw[2], raw[2] & 0x7F, (raw[1] & 0x7F) + raw[2]) if len(raw) > 2 else ()):
            for off in (0, 1, 2, 3, 4, 5):
                cands.add(b + off)
        for c in sorted(cands):
            if 0 < c < len(raw) and pos + c < n:
                yield [pos + c]
                if pos:
                    yield [pos, pos + c]
        pos += len(raw)
    if n <= 1200:       # and every single cut, alone and after a cut at each packet boundary
        starts, pos = [], 0
        for p in pkts[:-1]:
            pos += len(rc.encode(p, 4))
            starts.append(pos)
        for c in range(1, n):
            yield [c]
            for s0 in starts:
                if s0 < c:
                    yield [s0, c]


def random_cuts(count, seed):
    def f(n, pkts):
        rng = random.Random(seed * 31 + n)
        for _ in range(count):
            k = rng.choice([1, 2, 3, 5, 9, 30])
            yield sorted(rng.sample(range(1, n), min(k, n - 1)))
    return f


@register
class P03(Plan):
    prop = "C03"
    counts_distinct_in_stats = True
    monitor = None
    rule = ("case = (prelude state, broker packet stream, composition of its bytes into chunks); every composition is run in a fresh world against the real protocol and its "
            "observation log (writes, Deferred outcomes, onPublish calls, close calls, final timer table) compared with one-packet-per-chunk delivery; streams up to 12 (quick) / 16 "
            "(thorough) bytes: all 2^(n-1) compositions; longer streams: all 1- and 2-cut (thorough: 3-cut) placements up to 64 bytes, every cut in and around each fixed header / "
            "length field, byte-at-a-time, seeded random compositions; payloads push the remaining length to 1, 2, 3 (and in thorough 4) bytes; non-trivial = the baseline shows at least "
            "one observable effect; distinct = distinct (stream, composition)")
    assumptions = ["the protocol under test is the pubsubs profile with requests of every kind pending (and a second prelude still waiting for CONNACK)",
                   "no virtual time passes while the chunks are fed and 20 s pass afterwards, except in the timed families, where the chunks are 1 to 30 s apart so that the keepalive tick, the PINGRESP deadline and retry timers fire between them (baseline there: each packet delivered whole at the instant its last byte arrives)"]

    def budget(self, tier):
        return 150 if tier == "quick" else 2400

    def min_deciding(self, tier):
        return 20000

    def required_counters(self, tier):
        return {"compositions": 20000, "distinct_nontrivial": 15000}

    def exhaustive(self, tier):
        return ["all compositions of every listed stream of at most %d bytes" % (12 if tier == "quick" else 16)]

    def cases(self, tier, seed):
        cfg = Cfg(profile="pubsub", model="sync")
        cfg2 = Cfg(profile="pubsub", model="tcp")
        small = ["puback", "pubrec", "pubcomp", "suback", "unsuback", "pingresp", "puback2", "stray"]
        limit = 12 if tier == "quick" else 16
        sizes = {"puback": 4, "pubrec": 4, "pubcomp": 4, "suback": 6, "unsuback": 4, "pingresp": 2, "puback2": 4, "stray": 4, "connack": 4}
        streams = []
        for k in (1, 2, 3, 4):
            for combo in itertools.permutations(small, k):
                if sum(sizes[x] for x in combo) <= limit and len(set(combo)) == len(combo):
                    streams.append(combo)
        rng = random.Random(seed)
        rng.shuffle(streams)
        keep = 40 if tier == "quick" else 200
        for st in streams[:keep]:
            yield ChunkCase("all-compositions", cfg, "busy", st, all_cuts)
        for st in (("connack", "puback"), ("connack", "pubrec", "pingresp"), ("connack",), ("puback", "connack", "puback")):
            yield ChunkCase("all-compositions/connecting", cfg, "connecting", st, all_cuts)
        mid = [("q0", "puback"), ("q1", "q0e", "suback"), ("q2", "rel", "pubcomp"), ("pingresp", "q0", "q0", "pubrec"), ("q2", "q2", "rel"),
               ("suback", "q1", "unsuback", "q0e", "puback"), ("q0e", "q0e", "q0e")]
        for st in mid:
            for model_cfg in (cfg, cfg2):
                yield ChunkCase("1-cuts", model_cfg, "busy", st, k_cuts(1))
            yield ChunkCase("2-cuts", cfg, "busy", st, k_cuts(2))
            yield ChunkCase("3-cuts", cfg, "busy", st, k_cuts(3, None if tier == "thorough" else 500, seed))
            yield ChunkCase("header-cuts", cfg, "busy", st, header_cuts)
            yield ChunkCase("random-cuts", cfg, "busy", st, random_cuts(100 if tier == "quick" else 2000, seed))
        yield ChunkCase("1-cuts/connecting", cfg, "connecting", ("connack", "q1", "puback", "pubrec"), k_cuts(1))
        yield ChunkCase("2-cuts/connecting", cfg, "connecting", ("connack", "q1", "puback", "pubrec"), k_cuts(2))
        long_streams = [("q1_2b", "puback"), ("puback", "q1_2b", "q0_3b", "pubrec"), ("q2_3b", "rel", "suback"), ("q0_3b", "q1_2b", "pingresp"),
                        ("r128", "pingresp", "r256"), ("puback", "r16384", "q0"), ("r384", "r128"), ("pingresp", "r256", "pubrec", "r128")]
        # a packet with a four-byte length field (2 MiB): every cut in and right after its header
        yield ChunkCase("header-cuts/4-byte-length", cfg, "busy", ("q1_4b", "puback"), [[k] for k in range(1, 10)] + [[2, 4], [3, 5], [4, 5], [1, 2, 3, 4, 5]])
        if tier == "thorough":
            long_streams += [("puback", "q1_4b", "pubcomp"), ("q1_4b",)]
        # chunks that arrive at different times: a keepalive tick (60 s after CONNACK), the PINGRESP deadline, retry timers
        # (about 4.5 s after the requests were made) fall between them
        for st in (("q1", "puback"), ("q2", "rel", "pubcomp"), ("suback", "q1", "unsuback", "q0e", "puback"), ("pingresp", "q0", "q0", "pubrec")):
            for wait, gap in ((59.5, 1.0), (3.9, 1.5), (0.0, 30.0), (118.0, 1.25)):
                yield TimedChunkCase("timed-1-cuts", cfg, "busy", st, k_cuts(1), wait, gap)
                yield TimedChunkCase("timed-2-cuts", cfg2, "busy", st, k_cuts(2, 150, seed), wait, gap)
        yield TimedChunkCase("timed-1-cuts/connecting", cfg, "connecting", ("connack", "q1", "puback", "pubrec"), k_cuts(1), 29.5, 1.0)
        for st in long_streams:
            yield ChunkCase("header-cuts/long", cfg, "busy", st, header_cuts)
            yield ChunkCase("length-cuts/long", cfg, "busy", st, length_cuts)
            yield ChunkCase("random-cuts/long", cfg, "busy", st, random_cuts(60 if tier == "quick" else 600, seed))

    def case_from_replay(self, d):
        if d.get("timed"):
            return TimedChunkCase(d["family"], Cfg(**d["cfg"]), d["prelude"], tuple(d["names"]), [d["cuts"]], d["timed"][0], d["timed"][1])
        return ChunkCase(d["family"], Cfg(**d["cfg"]), d["prelude"], tuple(d["names"]), [d["cuts"]])

    def shrink(self, rep, sig):
        return rep


# ------------------------------------------------------------------ C19

GLOBAL_STEPS = ("tick", "adv", "chunk", "placeid", "endprobe", "endmark")


def project(steps, a):
    return [s for s in steps if s[0] in GLOBAL_STEPS or s[1] == a]


class TwoAddrCase(object):
    def __init__(self, family, cfg, steps=None, walk=None):
        self.family, self.cfg, self.steps, self.walk = family, cfg, steps, walk

    def run(self, monitor):
        r = C.CaseResult()
        w = World(self.cfg)
        if self.steps is not None:
            for s in self.steps:
                w.step(s)
        else:
            rng = random.Random(self.walk["seed"])
            wk = gen.Walker(rng, self.walk["flavour"], (0, 1), None, self.walk.get("keepalive", 0), None, 8, no_tick=True)
            wk.walk(w, self.walk["n"])
        steps = gen.executed_steps(w.trace)
        w.step(("adv", 50))
        stats = {"deciding": 0, "projections": 0}
        desc = {"kind": "twoaddr", "family": self.family, "cfg": self.cfg.asdict(), "steps": steps}
        both = set(s[1] for s in steps if s[0] not in GLOBAL_STEPS)
        for a in (0, 1):
            if a not in both:
                continue
            w1 = World(self.cfg)
            for s in project(steps, a):
                w1.step(s)
            w1.step(("adv", 50))
            la = obs_log(w.trace, 0, addr=a, canonical=True)
            lb = obs_log(w1.trace, 0, addr=a, canonical=True)
            stats["projections"] += 1
            if len(both) == 2:
                stats["deciding"] += 1
            d = first_diff(la, lb)
            if d is not None:
                kind = (d[1] or d[2])[0]
                r.violations.append(("C19.other-address-changes-behaviour/%s" % kind,
                                     "address %d behaves differently when address %d is active: entry %d: together %s, alone %s"
                                     % (a, 1 - a, d[0], _s(d[1]), _s(d[2])), None))
                break
        A = Analysis(w.trace, self.cfg)
        v17, st17 = c17(A)
        for x in v17:
            r.violations.append((x.sig.replace("C17.", "C19.identifier-collision/"), x.msg, x.step))
        stats["allocations"] = st17.get("allocations", 0)
        r.evals = 1
        r.stats = stats
        if stats["deciding"]:
            r.keys = [C.digest([self.cfg.asdict(), steps])]
        r.replay = desc
        r.sample = desc
        return r


def interleavings(xs, ys):
    if not xs:
        yield list(ys)
        return
    if not ys:
        yield list(xs)
        return
    for rest in interleavings(xs[1:], ys):
        yield [xs[0]] + rest
    for rest in interleavings(xs, ys[1:]):
        yield [ys[0]] + rest


@register
class P19(Plan):
    prop = "C19"
    monitor = None
    rule = ("case = a history over two broker addresses served by one factory; it is run three times (both addresses, address A alone, address B alone; steps of the other address "
            "deleted, global time steps kept) and the per-address observation logs (decoded packets, Deferred outcomes, callbacks, close calls, losses, all with virtual "
            "timestamps; identifiers and Deferred numbers renamed by rank of first appearance) must be identical; histories = every interleaving of two per-address scripts "
            "(<= 5 + 5 steps) and seeded two-address walks with loss and clean/persistent reconnect on one side while the other is in mid-exchange; the identifier monitor of C17 "
            "runs on the combined history; non-trivial = both addresses were active; distinct by (config, executed step list)")
    assumptions = SessionPlan.assumptions[:3] + ["constant jitter, time advances only through explicit adv steps so both runs see the same clock"]

    def required_counters(self, tier):
        return {"projections": 4000, "allocations": 10000}

    def cases(self, tier, seed):
        A = connected(0, clean=False, win=2)
        B = connected(1, clean=True, win=1)
        # keepalive on one or both sides: the two keepalive loops must not share anything
        ka_a = [("adv", 3), ("pingresp", 0), ("adv", 4), ("pub", 0, 1), ("adv", 4), ("pingresp", 0), ("adv", 9)]
        ka_b = [("adv", 2), ("pub", 1, 1), ("lose", 1, "done"), ("adv", 3), ("build", 1), ("connect", 1, True, 6, 4), ("connack", 1, 0, False), ("adv", 7)]
        for model in MODELS:
            cfg = Cfg(profile="pubsub", model=model, jitter="const")
            for kaA, kaB in ((4, 0), (4, 6), (0, 6), (7, 7)):
                for n2, mix in enumerate(interleavings(ka_a, ka_b)):
                    if n2 % 7 == 0 or tier == "thorough":
                        yield TwoAddrCase("keepalive-interleavings", cfg,
                                          steps=connected(0, clean=True, ka=kaA) + connected(1, clean=True, ka=kaB) + mix)
        scripts_a = [[("pub", 0, 1), ("pub", 0, 2), ("ack", 0, "PUBREC", "old"), ("lose", 0, "lost"), ("adv", 5)],
                     [("pub", 0, 1), ("pub", 0, 1), ("pub", 0, 1), ("ack", 0, "PUBACK", "old"), ("adv", 6)],
                     [("sub", 0, "list", 2, 1), ("unsub", 0, "str", 1), ("ack", 0, "SUBACK", "old"), ("inpub", 0, 2), ("inrel", 0, "known")]]
        scripts_b = [[("pub", 1, 1), ("pub", 1, 2), ("adv", 5), ("ack", 1, "PUBACK", "old"), ("disconnect", 1)],
                     [("pub", 1, 2), ("ack", 1, "PUBREC", "old"), ("lose", 1, "done"), ("build", 1), ("connect", 1, True, 0, 4)],
                     [("sub", 1, "str", 1, 2), ("pub", 1, 0), ("pub", 1, 1), ("lose", 1, "reset"), ("adv", 1)]]
        scripts_a.append([("lose", 0, "done"), ("build", 0), ("connect", 0, True, 0, 4), ("pub", 0, 1), ("connack", 0, 0, False),
                          ("ack", 0, "PUBACK", "old")])
        scripts_b.append([("lose", 1, "lost"), ("build", 1), ("connect", 1, False, 0, 3), ("connack", 1, 0, True), ("pub", 1, 2)])
        n = 0
        for model in MODELS:
            cfg = Cfg(profile="pubsub", model=model, jitter="const")
            for sa in scripts_a:
                for sb in scripts_b:
                    for mix in interleavings(sa, sb):
                        n += 1
                        if tier == "quick" and n % 3:
                            continue
                        yield TwoAddrCase("interleavings", cfg, steps=A + B + mix)
        nw = 1500 if tier == "quick" else 40000
        for k in range(nw):
            rng = random.Random(seed * 100019 + k)
            cfg = Cfg(profile=rng.choice(["pubsub", "pubsub", "pub", "sub"]), model=rng.choice(MODELS), jitter="const",
                      jitter_value=rng.choice([0.0, 0.5]), close_delay=rng.choice([0.0, 0.5]), ondisc=rng.random() < 0.7)
            yield TwoAddrCase("walk", cfg, walk={"seed": rng.randrange(1 << 30), "flavour": rng.choice(["mixed", "pubflow", "lossy", "subflow", "timers"]),
                                                 "n": rng.choice([20, 40, 80]), "keepalive": rng.choice([0, 0, None, None, 5])})

    def case_from_replay(self, d):
        return TwoAddrCase(d["family"], Cfg(**d["cfg"]), steps=[tuple(s) for s in d["steps"]])

    def shrink(self, rep, sig):
        if rep.get("kind") != "twoaddr":
            return rep
        steps = list(rep["steps"])
        cfg = Cfg(**rep["cfg"])

        def fails(cand):
            try:
                r = TwoAddrCase("shrink", cfg, steps=cand).run(None)
            except Exception:
                return False
            return any(v[0] == sig for v in r.violations)
        if not fails(steps):
            rep["shrunk"] = "not reproducible from the step list"
            return rep
        i = 0
        runs = 0
        while i < len(steps) and runs < 300:
            cand = steps[:i] + steps[i + 1:]
            runs += 1
            if fails(cand):
                steps = cand
            else:
                i += 1
        rep["steps_original"] = len(rep["steps"])
        rep["steps"] = steps
        rep["shrunk"] = "one-at-a-time removal, %d runs" % runs
        return rep


# ------------------------------------------------------------------ C20

import mqtt   # noqa: E402

BIG = "x" * 65536
BIG4 = "\U0001f600" * 16384          # 65536 bytes, 16384 characters
OK65535 = "y" * 65535
V31, V311 = mqtt.v31, mqtt.v311


def arg_table():
    """(op, args, kwargs, expect, label).  expect: 'reject' | 'accept' | 'either'."""
    T = []
    for n, exp in ((0, "reject"), (17, "reject"), (-1, "reject"), (100, "reject"), (1, "accept"), (16, "accept"), (8, "accept"),
                   (16.5, "reject"), (0.5, "reject"),               # outside 1..16 whatever the type
                   (None, "reject"), ("3", "reject"), (b"3", "reject"), ([4], "reject")):      # ill-typed: refused, not coerced
        T.append(("setWindowSize", (n,), {}, exp, "window=%r" % (n,)))
    for t, exp in ((0, "reject"), (1025, "reject"), (-5, "reject"), (1, "accept"), (1024, "accept"), (30, "accept"),
                   (0.5, "reject"), (1024.5, "reject"), (None, "reject"), ("8", "reject"), (b"8", "reject")):
        T.append(("setTimeout", (t,), {}, exp, "timeout=%r" % (t,)))
    for bw, f, exp in ((0, 2, "reject"), (-1, 2, "reject"), (100, 0, "reject"), (100, -1, "reject"), (1, 1, "accept"), (1000000, 3, "accept"),
                       (0.5, 2, "accept")):
        T.append(("setBandwith", (bw, f), {}, exp, "bandwith=%r,factor=%r" % (bw, f)))
    base = {"keepalive": 0, "cleanStart": True, "version": V311}

    def con(label, exp, cid="cid", **kw):
        k = dict(base)
        k.update(kw)
        T.append(("connect", (cid,), k, exp, "connect " + label))
    for q, exp in ((-1, "reject"), (3, "reject"), (0, "accept"), (1, "accept"), (2, "accept")):
        con("willQoS=%d" % q, exp, willTopic="w", willMessage="m", willQoS=q)
    for ka, exp in ((-1, "reject"), (65536, "reject"), (0, "accept"), (65535, "accept"), (300, "accept")):
        con("keepalive=%d" % ka, exp, keepalive=ka)
    con("v31 id 24 chars", "reject", cid="c" * 24, version=V31)
    con("v31 id 23 chars", "accept", cid="c" * 23, version=V31)
    # the limit is in characters: ids of at most 23 characters whose UTF-8 form is longer than 23 bytes
    con("v31 id 12 two-byte chars", "accept", cid="\u00e9" * 12, version=V31)
    con("v31 id 23 two-byte chars", "accept", cid="\u00e9" * 23, version=V31)
    con("v31 id 8 three-byte chars", "accept", cid="\u6e29" * 8, version=V31)
    con("v31 id 23 non-BMP chars", "accept", cid="\U0001f321" * 23, version=V31)
    con("v31 id 24 two-byte chars", "reject", cid="\u00e9" * 24, version=V31)
    con("v311 id 24 chars", "accept", cid="c" * 24, version=V311)
    con("unknown version", "reject", version={"level": 5, "tag": "MQTT"})
    con("version None", "reject", version=None)
    con("will topic without message", "reject", willTopic="w")
    con("will message without topic", "reject", willMessage="m")
    con("password without user", "reject", password="p")
    con("user and password", "accept", username="u", password="p€")
    con("user only", "accept", username="u")
    for fld in ("willTopic", "willMessage", "username", "password"):
        for s, exp, lab in ((BIG, "reject", "65536 bytes"), (BIG4, "reject", "65536 bytes of 4-byte characters"), (OK65535, "accept", "65535 bytes")):
            kw = {fld: s}
            if fld == "willTopic":
                kw["willMessage"] = "m"
            if fld == "willMessage":
                kw["willTopic"] = "w"
            if fld == "password":
                kw["username"] = "u"
            con("%s of %s" % (fld, lab), exp, **kw)
    con("clientId of 65536 bytes", "reject", cid=BIG)
    con("clientId of 65535 bytes", "accept", cid=OK65535)
    con("keepalive None", "either", keepalive=None)
    con("empty will message with topic", "accept", willTopic="w", willMessage="")
    con("empty will message without topic", "reject", willMessage="")
    con("empty user name with password", "accept", username="", password="p")

    def pub(label, exp, topic="t/a", msg="m", **kw):
        T.append(("publish", (topic, msg), kw, exp, "publish " + label))
    for q, exp in ((-1, "reject"), (3, "reject"), (0, "accept"), (1, "accept"), (2, "accept")):
        pub("qos=%d" % q, exp, qos=q)
    for payload, exp, lab in ((5, "reject", "int"), (5.5, "reject", "float"), (None, "reject", "None"), (b"raw", "reject", "bytes"), ([1, 2], "reject", "list"),
                              ("text", "accept", "str"), (bytearray(b"\x00\xff"), "accept", "bytearray"), ("", "accept", "empty str")):
        for q in (0, 1):
            pub("payload %s qos %d" % (lab, q), exp, msg=payload, qos=q)
    pub("topic of 65536 bytes", "reject", topic=BIG, qos=1)
    pub("topic of 65536 bytes (4-byte characters)", "reject", topic=BIG4, qos=0)
    pub("topic of 65535 bytes", "accept", topic=OK65535, qos=1)
    pub("qos None", "either", qos=None)

    def sub(label, exp, *a, **kw):
        T.append(("subscribe", a, kw, exp, "subscribe " + label))
    for q, exp in ((-1, "reject"), (3, "reject"), (0, "accept"), (2, "accept")):
        sub("str shape qos=%d" % q, exp, "t/s", q)
        sub("tuple shape qos=%d" % q, exp, ("t/s", q))
        sub("list shape qos=%d" % q, exp, [("t/a", 1), ("t/s", q)])
    for topics, lab in ((5, "int"), (None, "None"), ({"t": 1}, "dict"), (b"t/s", "bytes"), (5.5, "float")):
        sub("topics of type %s" % lab, "reject", topics)
        T.append(("unsubscribe", (topics,), {}, "reject", "unsubscribe topics of type %s" % lab))
    # not representable on the wire: must be refused as well, and must not leave anything behind
    sub("list with a 65536-byte topic", "reject", [("t/ok", 0), (BIG, 1)])
    sub("str topic of 65536 bytes (4-byte characters)", "reject", BIG4, 1)
    sub("list with a bytes topic", "either", [(b"t/raw", 0)])
    T.append(("unsubscribe", ([BIG],), {}, "reject", "unsubscribe list with a 65536-byte topic"))
    T.append(("unsubscribe", ([b"t/raw"],), {}, "either", "unsubscribe list with a bytes topic"))
    T.append(("unsubscribe", ("t/u",), {}, "accept", "unsubscribe str"))
    T.append(("unsubscribe", (["t/u", "t/v"],), {}, "accept", "unsubscribe list"))
    T.append(("unsubscribe", (("t/u", "t/v"),), {}, "reject", "unsubscribe topics of type tuple"))
    return T


STATES20 = {
    "idle": [("build", 0)],
    "connecting": [("build", 0), ("setwin", 0, 3), ("connect", 0, True, 0, 4)],
    "connecting-busy": [("build", 0), ("setwin", 0, 1), ("connect", 0, False, 0, 3), ("pub", 0, 1), ("pub", 0, 2)],
    "connected": connected(win=3),
    "connected-busy": connected(win=4, ka=30) + [("pub", 0, 1), ("pub", 0, 2), ("ack", 0, "PUBREC", "old"), ("sub", 0, "str", 1, 1), ("unsub", 0, "str", 1)],
    "connected-full": connected(win=1) + [("pub", 0, 1), ("pub", 0, 1), ("pub", 0, 0)],
    # several exchanges in flight (a valid window size below their number is still a valid window size)
    "connected-inflight": connected(win=5) + [("pub", 0, 1), ("pub", 0, 2), ("pub", 0, 1), ("pub", 0, 1)],
    # a fresh protocol that inherits the unfinished exchanges of a persistent session
    "idle-inherited": connected(clean=False, win=5) + [("pub", 0, 1), ("pub", 0, 2), ("pub", 0, 1), ("pub", 0, 1), ("lose", 0, "done"), ("build", 0)],
}
POST20 = [("pub", 0, 1, False, 3000), ("adv", 45), ("ack", 0, "PUBACK", "old"), ("sub", 0, "str", 1, 1), ("unsub", 0, "str", 1),
          ("ack", 0, "SUBACK", "old"), ("ack", 0, "UNSUBACK", "old"), ("sub", 0, "list", 2, 0), ("pub", 0, 2), ("adv", 9), ("lose", 0, "lost"), ("adv", 2)]


def where_allowed(op, prof, state):
    if op in ("setWindowSize", "setTimeout", "setBandwith"):
        return True
    if op == "connect":
        return state == "idle"
    if op == "publish":
        return prof in ("pub", "pubsub") and not state.startswith("idle")
    return prof in ("sub", "pubsub") and state.startswith("connected")


class ArgCase(object):
    def __init__(self, cfg, sname, row, idx):
        self.family = "args/" + row[0]
        self.cfg, self.sname, self.row, self.idx = cfg, sname, row, idx

    def run(self, monitor):
        op, args, kw, exp, label = self.row
        pre = STATES20[self.sname]
        post = POST20
        if op == "connect":
            post = ([("connack", 0, 0, False)] if exp != "reject" else
                    [("connect", 0, False, 0, 3), ("connack", 0, 0, False)]) + [("pub", 0, 1), ("adv", 12), ("lose", 0, "done"), ("build", 0),
                                                                               ("connect", 0, False, 0, 3), ("connack", 0, 0, True), ("adv", 1)]
        w = World(self.cfg)
        for s in pre:
            w.step(s)
        w.step(("call", 0, op, args, kw))
        callstep = w.step_no
        for s in post:
            w.step(s)
        r = C.CaseResult()
        r.evals = 1
        st = {"deciding": 1, "rows/" + exp: 1, "ops/" + op: 1}
        evs = [e for e in w.trace if e["step"] == callstep]
        ret = [e for e in evs if e["k"] == "api_ret"][0]
        fires = [e for e in evs if e["k"] == "fire"]
        wrote = [e for e in evs if e["k"] == "write"]
        snaps = {e["step"]: e for e in w.trace if e["k"] == "snap"}
        before, after = snaps[callstep - 1], snaps[callstep]
        sig = None
        if "did" in ret:
            if ret["called"] and fires and not fires[0]["ok"]:
                outcome = "failed:" + ("value" if fires[0]["is_value"] else "type" if fires[0]["is_type"] else fires[0]["etype"])
            elif ret["called"]:
                outcome = "accepted"
            else:
                outcome = "accepted"
        elif ret.get("raised"):
            outcome = "raised:" + ("value" if ret["exc_is_value"] else "type" if ret["exc_is_type"] else ret["raised"])
        else:
            outcome = "accepted"
        rejected_ok = outcome in ("failed:value", "failed:type", "raised:value", "raised:type")
        setter = op.startswith("set")
        tag = "%s/%s" % (op, label.replace(" ", "-"))
        if exp == "reject":
            if outcome == "accepted":
                sig, msg = "invalid-accepted/" + tag, "%s was accepted (%s state, profile %s)" % (label, self.sname, self.cfg.profile)
            elif not rejected_ok:
                sig, msg = "wrong-rejection/" + tag, "%s refused with %s instead of ValueError/TypeError" % (label, outcome.split(":")[1])
            elif setter and not outcome.startswith("raised"):
                sig, msg = "wrong-rejection-channel/" + tag, "%s should raise" % label
            elif not setter and outcome.startswith("raised"):
                sig, msg = "wrong-rejection-channel/" + tag, "%s raised instead of returning a failed Deferred" % label
        elif exp == "accept":
            if outcome != "accepted":
                # a full subscribe window legitimately refuses with MQTTWindowError
                et = fires[0]["etype"] if fires else ret.get("raised")
                if et != "MQTTWindowError":
                    sig, msg = "valid-rejected/" + tag, "%s refused with %s (%s state, profile %s)" % (label, et, self.sname, self.cfg.profile)
        else:
            if outcome != "accepted" and not rejected_ok:
                sig, msg = "wrong-rejection/" + tag, "%s refused with %s instead of ValueError/TypeError" % (label, outcome.split(":")[1])
        if sig is None and outcome != "accepted":
            # atomicity: nothing written, no timer, state unchanged, and the rest of the history as if never called
            if wrote:
                sig, msg = "refusal-not-atomic/wrote/" + tag, "refused %s wrote %d bytes" % (label, len(wrote[0]["data"]))
            elif sorted(before["calls"]) != sorted(after["calls"]):
                sig, msg = "refusal-not-atomic/timer/" + tag, "refused %s changed the timer table" % label
            elif before["states"] != after["states"]:
                sig, msg = "refusal-not-atomic/state/" + tag, "refused %s changed the protocol state %r -> %r" % (label, before["states"], after["states"])
            else:
                w2 = World(self.cfg)
                for s in pre:
                    w2.step(s)
                for s in post:
                    w2.step(s)
                la = obs_log(w.trace, callstep + 1, canonical=True)
                lb = obs_log(w2.trace, callstep, canonical=True)
                d = first_diff(la, lb)
                st["twins"] = 1
                if d is not None:
                    sig, msg = "refusal-not-atomic/later/" + tag, "after refused %s the history differs from its twin: %s vs %s" % (label, _s(d[1]), _s(d[2]))
        if sig is not None:
            r.violations.append(("C20." + sig, msg, callstep))
        r.stats = st
        desc = {"kind": "args", "cfg": self.cfg.asdict(), "state": self.sname, "row": self.idx, "label": label, "expect": exp, "outcome": outcome}
        r.keys = [C.digest([self.cfg.profile, self.cfg.model, self.sname, self.idx])]
        r.sample = desc
        r.replay = desc
        return r


@register
class P20(Plan):
    prop = "C20"
    monitor = None
    rule = ("case = (profile, transport model, protocol state with or without requests pending, one API call from the argument table: lowest/highest accepted value, first rejected "
            "value on both sides, interior values, wrong types and None for every argument the statement lists); judged: outcome class (accepted / ValueError / TypeError / other), "
            "channel (raise for setters, failed Deferred elsewhere), atomicity of a refusal (no write, timer table and state unchanged in the call step, and the rest of the history "
            "identical to a twin history without the call); every case is distinct and non-trivial")
    assumptions = SessionPlan.assumptions[:3] + ["arguments the statement does not enumerate (e.g. None where a number is expected) may be refused by raising or by a failed Deferred"]

    def exhaustive(self, tier):
        return ["argument table x profiles x states in which the call is otherwise allowed x transport models"]

    def min_deciding(self, tier):
        return 1000

    def required_counters(self, tier):
        return {"rows/reject": 500, "rows/accept": 300, "twins": 300}

    def cases(self, tier, seed):
        table = arg_table()
        for prof in ("pubsub", "pub", "sub"):
            for model in MODELS:
                cfg = Cfg(profile=prof, model=model)
                for sname in STATES20:
                    for idx, row in enumerate(table):
                        if where_allowed(row[0], prof, sname):
                            yield ArgCase(cfg, sname, row, idx)

    def case_from_replay(self, d):
        return ArgCase(Cfg(**d["cfg"]), d["state"], arg_table()[d["row"]], d["row"])

    def shrink(self, rep, sig):
        return rep
