"""Plans for C03/C19/C20 (filled in below)."""
