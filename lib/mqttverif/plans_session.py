"""Plans for the session properties C04-C18."""
import itertools
import random

from . import cases as C
from . import gen
from .plans import reentrant_end_cases, SessionPlan, register, sweep_cases, crash_cases
from .world import Cfg, World
from .mon import conn, pub, sub, timing, hostile

MODELS = ("sync", "tcp")


def cfgs(profiles=("pubsub",), models=MODELS, **kw):
    out = []
    for p in profiles:
        for m in models:
            out.append(Cfg(profile=p, model=m, **kw))
    return out


def connected(a=0, clean=True, ka=0, lvl=4, win=None, timeout=None):
    st = [("build", a)]
    if win:
        st.append(("setwin", a, win))
    if timeout:
        st.append(("settimeout", a, timeout))
    st += [("connect", a, clean, ka, lvl), ("connack", a, 0, False)]
    return st


def reconnect(a=0, clean=False, loss="done", pre=(), ka=0, lvl=4, win=None):
    st = [("lose", a, loss), ("build", a)]
    if win:
        st.append(("setwin", a, win))
    st.append(("connect", a, clean, ka, lvl))
    st.extend(pre)
    st.append(("connack", a, 0, not clean))
    return st


def other_client_id_cases():
    """The application reconnects under another client id (the client-side session is kept per broker
    address; what the broker makes of the new id is its business): exchanges in every stage must resume as usual."""
    stages = [[("pub", 0, 2)], [("pub", 0, 2), ("ack", 0, "PUBREC", "old")], [("pub", 0, 2), ("ack", 0, "PUBREC", "old"), ("pub", 0, 2), ("pub", 0, 1)],
              [("pub", 0, 1), ("pub", 0, 2), ("pub", 0, 2), ("ack", 0, "PUBREC", "new"), ("inpub", 0, 2)]]
    tails = [[("tick",), ("tick",)], [("ack", 0, "PUBCOMP", "old"), ("ack", 0, "PUBREC", "old")],
             [("ack", 0, "PUBREC", "old"), ("ack", 0, "PUBCOMP", "old"), ("ack", 0, "PUBACK", "old"), ("inrel", 0, "known")]]
    for lvl in (3, 4):
        for st in stages:
            for tail in tails:
                for clean2 in (False, True):
                    steps = connected(clean=False, win=2, lvl=lvl) + st + [("lose", 0, "lost"), ("build", 0), ("setwin", 0, 2),
                                                                          ("connect", 0, clean2, 0, lvl, {"clientId": "another-client-id"}),
                                                                          ("connack", 0, 0, not clean2)] + tail
                    yield C.SessionCase("other-client-id", Cfg(profile="pubsub"), steps=steps)


def base_histories(seed, n, flavours, profile="pubsub", persistent=None, length=14, model="sync"):
    """Record the step lists of n seeded walks (used as bases of crash-point sweeps)."""
    out = []
    for k in range(n):
        rng = random.Random(seed * 7907 + k)
        cfg = Cfg(profile=profile, model=model, jitter="const", seed=k)
        w = World(cfg)
        wk = gen.Walker(rng, rng.choice(flavours), persistent=persistent, keepalive=0)
        wk.walk(w, length)
        out.append(gen.executed_steps(w.trace))
    return out


LOSSES = [[("lose", 0, "done")], [("lose", 0, "lost")], [("disconnect", 0)],
          [("raw", 0, b"\xf0\x00")], [("raw", 0, b"\x20\x01\x00")]]


# ------------------------------------------------------------------------------ C04

@register
class P04(SessionPlan):
    prop = "C04"
    stalls = False      # this check judges exact deadlines
    monitor = staticmethod(conn.c04)
    rule = ("histories = seeded random walks over all profiles/transports plus the exhaustive handshake matrix "
            "(3 profiles x 256 CONNACK return codes x session-present x keepalive 0/7 x 3.1/3.1.1 x 2 transport models) "
            "and every ordering (depth<=3/4) of CONNACK, duplicate CONNACK, refusal, timer expiry and loss; "
            "non-trivial = the monitor judged at least one connect() outcome or one connection loss in it; distinct by (config, executed step list)")
    n_quick = 10000

    def exhaustive(self, tier):
        return ["profiles x CONNACK return codes 0..255 x session-present x keepalive {0,7} x protocol level {3,4} x transport model"]

    def required_counters(self, tier):
        return {"accepted": 100, "refused": 1000, "no_connack": 50, "losses": 500, "reconnect_after_refusal": 20, "connect_on_lost_protocol": 20}

    def extra_cases(self, tier, seed):
        for prof in ("pub", "sub", "pubsub"):
            for model in MODELS:
                cfg = Cfg(profile=prof, model=model)
                for rc, sp, ka, lvl in itertools.product(range(256), (False, True), (0, 7), (3, 4)):
                    st = [("build", 0), ("connect", 0, bool(rc & 1), ka, lvl), ("connack", 0, rc, sp)]
                    if rc:
                        st += [("pub", 0, 1), ("lose", 0, "done")]    # a broker closes after refusing
                    yield C.SessionCase("handshake-matrix", cfg, steps=st)
        # the CONNACK deadline over the whole keepalive range: silence up to just before it, then either a CONNACK or the timeout
        for ka in (0, 1, 2, 9, 10, 11, 255, 256, 1023, 1024, 1025, 1200, 3600, 32768, 65535):
            for prof, model in (("pubsub", "sync"), ("pub", "tcp"), ("sub", "sync")):
                for lvl in (3, 4):
                    wait = (ka or 10) - 0.5
                    head = [("build", 0), ("connect", 0, True, ka, lvl), ("adv", wait)]
                    yield C.SessionCase("connack-deadline", Cfg(profile=prof, model=model), steps=head + [("adv", 1)])
                    yield C.SessionCase("connack-deadline", Cfg(profile=prof, model=model), steps=head + [("connack", 0, 0, False), ("adv", 1)])
                    yield C.SessionCase("connack-deadline", Cfg(profile=prof, model=model), steps=head + [("connack", 0, 2, False), ("adv", 1)])
        # the client aborts on its own (a packet type it must not get) and the application then uses the protocol object again
        for model in MODELS:
            for prof in ("pubsub", "sub"):
                for blob in (b"\xf0\x00", b"\x00\x00", b"\x82\x02\x00\x01", b"\xc0\x00", b"\x10\x00", b"\xe0\x00", b"\x20\x01\x00"):
                    for pre in (connected(), connected(ka=5) + [("sub", 0, "str", 1, 1)], [("build", 0), ("connect", 0, True, 0, 4)]):
                        yield C.SessionCase("abort-then-reuse", Cfg(profile=prof, model=model, close_delay=0.5),
                                            steps=pre + [("raw", 0, blob), ("adv", 1), ("connect_stale", 0, True, 0, 4), ("adv", 11), ("pub", 0, 1)])
        # only every other protocol of the factory gets an onDisconnection handler (same address, and two addresses)
        for model in MODELS:
            for prof in ("pubsub", "pub", "sub"):
                one = []
                for k in range(4):
                    one += [("build", 0), ("connect", 0, k % 2 == 0, 0, 4), ("connack", 0, 0, False), ("adv", 1), ("lose", 0, ("done", "lost")[k % 2]), ("adv", 1)]
                yield C.SessionCase("handler-per-protocol", Cfg(profile=prof, model=model, ondisc="alt"), steps=one)
                two = [("build", 0), ("build", 1), ("connect", 0, True, 0, 4), ("connect", 1, True, 0, 4), ("connack", 0, 0, False), ("connack", 1, 0, False),
                       ("lose", 1, "done"), ("adv", 1), ("lose", 0, "lost"), ("adv", 1), ("build", 1), ("connect", 1, True, 0, 4), ("connack", 1, 0, False),
                       ("lose", 1, "lost"), ("adv", 1)]
                yield C.SessionCase("handler-per-protocol", Cfg(profile=prof, model=model, ondisc="alt"), steps=two)
        alpha = [("connack", 0, 0, False), ("connack", 0, 0, True), ("connack", 0, 5, False), ("connack", 0, 200, True),
                 ("adv", 11), ("tick",), ("lose", 0, "done"), ("lose", 0, "lost"), ("pub", 0, 1), ("pingresp", 0),
                 ("connect", 0, True, 0, 4), ("connect", 0, False, 4, 3),     # again, e.g. on the protocol a refusal left idle
                 ("connect_stale", 0, True, 0, 4), ("connect_stale", 0, True, 30, 4)]   # ... or a loss left idle
        depth = 3 if tier == "quick" else 4
        for ondisc, rec, ref in ((True, False, None), (False, False, None), (True, True, None), (True, False, "connect"), (True, False, "publish")):
            cs = [Cfg(profile=p, model=m, ondisc=ondisc, re_connect_on_disc=rec, re_on_refuse=ref)
                  for p in (("pubsub", "pub", "sub") if ref is None else ("pubsub",)) for m in MODELS]
            for ka in (0, 3):
                for x in sweep_cases("handshake-orderings", cs, [("build", 0), ("connect", 0, True, ka, 4)], alpha, depth):
                    yield x


# ------------------------------------------------------------------------------ C05

@register
class P05(SessionPlan):
    prop = "C05"
    monitor = staticmethod(pub.c05)
    flavours = ("pubflow", "pubflow", "mixed", "lossy")
    profiles = ("pub", "pubsub")
    rule = ("histories = seeded walks (publish-heavy, windows 1..16, acknowledgements in any order, duplicated, late, "
            "never-issued identifiers, timer expiries) plus every step sequence up to the sweep depth over a 15-symbol alphabet; "
            "non-trivial = at least one publish Deferred outcome or no-op acknowledgement was judged; distinct by (config, executed step list)")

    def required_counters(self, tier):
        return {"success/qos1": 100, "success/qos2": 100, "qos0": 100, "noop_acks/dupack": 50, "noop_acks/stray": 50, "noop_acks/cross": 50, "endcheck": 100}

    def extra_cases(self, tier, seed):
        alpha = [("pub", 0, 0), ("pub", 0, 1), ("pub", 0, 2), ("ack", 0, "PUBACK", "old"), ("ack", 0, "PUBACK", "new"),
                 ("ack", 0, "PUBREC", "old"), ("ack", 0, "PUBCOMP", "old"), ("dupack", 0, "PUBACK"), ("dupack", 0, "PUBCOMP"),
                 ("dupack", 0, "PUBREC"), ("stray", 0, "PUBACK"), ("stray", 0, "PUBCOMP"), ("early", 0, "PUBCOMP"), ("tick",),
                 ("setwin", 0, 2), ("cross", 0, "PUBACK"), ("cross", 0, "PUBREC")]
        depth = 4 if tier == "quick" else 5
        return sweep_cases("sweep", cfgs(("pubsub",), ("sync",)), connected(), alpha, depth)


# ------------------------------------------------------------------------------ C06

@register
class P06(SessionPlan):
    prop = "C06"
    monitor = staticmethod(sub.c06)
    flavours = ("subflow", "subflow", "mixed", "lossy")
    profiles = ("sub", "pubsub")
    rule = ("histories = seeded walks (inbound PUBLISH at QoS 0/1/2, DUP/RETAIN, reused identifiers, repeated PUBLISH and PUBREL, "
            "unknown PUBREL, loss + clean/persistent reconnect) plus every step sequence up to the sweep depth; "
            "non-trivial = at least one delivery or acknowledgement obligation was judged; distinct by (config, executed step list)")

    def required_counters(self, tier):
        return {"q01_deliveries": 200, "q2_deliveries": 100, "q2_exchanges": 100, "acks/PUBCOMP": 100, "acks/PUBACK": 100, "acks/PUBREC": 100}

    def extra_cases(self, tier, seed):
        alpha = [("inpub", 0, 0), ("inpub", 0, 1, True, True), ("inpub", 0, 2), ("inpub", 0, 2, True, False, "repeat"),
                 ("inpub", 0, 1, False, False, "reuse", 70000 if False else 400, "uni"),
                 ("inrel", 0, "known"), ("inrel", 0, "repeat"), ("inrel", 0, "unknown"),
                 reconnect(0, False), reconnect(0, True), ("tick",)]
        depth = 4 if tier == "quick" else 5
        cs = cfgs(("pubsub", "sub"), ("sync",))
        for x in sweep_cases("sweep", cs, connected(clean=False), alpha, depth):
            yield x
        big = [("inpub", 0, q, False, False, "new", size) for q in (0, 1, 2) for size in (0, 120, 16400, 65600)]
        yield C.SessionCase("payload-sizes", Cfg(profile="sub"), steps=connected() + big + [("inrel", 0, "known")] * 4)
        # many exchanges open at once (nothing in the statement bounds their number), released in order,
        # in one run or across a persistent reconnect
        for n in (17, 24, 70) if tier == "quick" else (17, 18, 24, 33, 70, 300):
            for prof in ("sub", "pubsub"):
                yield C.SessionCase("many-open", Cfg(profile=prof), steps=connected(clean=False) + [("inpub", 0, 2)] * n + [("inrel", 0, "known")] * n)
                yield C.SessionCase("many-open", Cfg(profile=prof), steps=connected(clean=False) + [("inpub", 0, 2)] * (n // 2) + reconnect(0, False)
                                    + [("inpub", 0, 2)] * (n - n // 2) + [("inrel", 0, "known")] * n)


# ------------------------------------------------------------------------------ C07

@register
class P07(SessionPlan):
    prop = "C07"
    monitor = staticmethod(sub.c07)
    flavours = ("subflow", "subflow", "mixed", "lossy", "timers")
    profiles = ("sub", "pubsub")
    rule = ("histories = seeded walks (subscribe/unsubscribe in all argument shapes, windows 1..16 changed in flight, "
            "SUBACK/UNSUBACK in any order, duplicated, foreign identifiers, granted lists of any length, expiries, loss + reconnect in both session modes) "
            "plus every step sequence up to the sweep depth; non-trivial = at least one call, completion or no-op acknowledgement was judged; "
            "distinct by (config, executed step list)")

    def required_counters(self, tier):
        return {"calls/subscribe": 200, "calls/unsubscribe": 200, "completions/subscribe": 100, "completions/unsubscribe": 100,
                "noop_acks/SUBACK": 20, "noop_acks/UNSUBACK": 20, "endchecks": 100}

    def extra_cases(self, tier, seed):

        # the application subscribes again to the very same filter after every reconnect (session present or not)
        same = []
        for lvl in (3, 4):
            for shape, n in (("str", 1), ("tuple", 1), ("list", 2)):
                for clean, sp in ((False, True), (False, False), (True, False)):
                    granted = ("ack", 0, "SUBACK", "old", [1] * n)        # granted exactly as requested
                    st = connected(clean=clean, lvl=lvl, win=2) + [("sub", 0, shape, n, 1, "same"), granted]
                    for _ in range(3):
                        st += [("lose", 0, "lost"), ("build", 0), ("setwin", 0, 2), ("connect", 0, clean, 0, lvl), ("connack", 0, 0, sp),
                               ("sub", 0, shape, n, 1, "same"), granted]
                    same.append(C.SessionCase("resubscribe-same", Cfg(profile="pubsub"), steps=st))
                    same.append(C.SessionCase("resubscribe-same", Cfg(profile="sub", model="tcp"), steps=st))
        alpha = [("sub", 0, "str", 1, 1), ("sub", 0, "tuple", 1, 2), ("sub", 0, "list", 3, 0), ("unsub", 0, "str", 1),
                 ("unsub", 0, "list", 2), ("ack", 0, "SUBACK", "old"), ("ack", 0, "SUBACK", "new", [0x80, 1, 2, 0, 1]),
                 ("ack", 0, "UNSUBACK", "new"), ("dupack", 0, "SUBACK"), ("stray", 0, "UNSUBACK"), ("stray", 0, "SUBACK"),
                 ("setwin", 0, 1), ("setwin", 0, 3), ("tick",), reconnect(0, False), reconnect(0, True),
                 ("cross", 0, "SUBACK"), ("cross", 0, "UNSUBACK"),
                 ("call", 0, "subscribe", ([("t/ok", 0), ("x" * 65536, 1)],), {}), ("call", 0, "unsubscribe", (["y" * 65536],), {})]
        depth = 3 if tier == "quick" else 4
        big = []
        for n in (125, 126, 127, 130, 300):
            st = connected(win=2) + [("sub", 0, "list", n, 1), ("ack", 0, "SUBACK", "old", [(0, 1, 2, 0x80)[k % 4] for k in range(n)]),
                                     ("unsub", 0, "list", n), ("ack", 0, "UNSUBACK", "old")]
            big.append(C.SessionCase("big-lists", Cfg(profile="sub"), steps=st))
        return itertools.chain(big, same, sweep_cases("sweep", cfgs(("pubsub", "sub"), ("sync",)), connected(clean=False, win=2), alpha, depth))


# ------------------------------------------------------------------------------ C08

@register
class P08(SessionPlan):
    prop = "C08"
    monitor = staticmethod(timing.c08)
    flavours = ("timers", "timers", "pubflow", "mixed")
    rule = ("histories = seeded walks (timer-heavy) plus the retransmission matrix: 4 packet kinds x protocol 3.1/3.1.1 x initial timeout "
            "{1,2,4,7,60,1024} x bandwidth {1,100,1e4,1e6} x factor {1,1.5,2,3} x payload sizes x k<=12 consecutive expiries x 3 jitter policies, plus 40 (thorough 120) consecutive expiries of one packet of each kind; "
            "non-trivial = at least one transmission, expiry or gap was judged; distinct by (config, executed step list)")

    def required_counters(self, tier):
        return {"expiries/PUBLISH": 300, "expiries/PUBREL": 100, "expiries/SUBSCRIBE": 100, "expiries/UNSUBSCRIBE": 100,
                "repeats/PUBLISH": 300, "gap_pairs": 300}

    def extra_cases(self, tier, seed):
        rng = random.Random(seed)
        touts = (1, 2, 4, 7, 60, 1024)
        bws = ((1, 2), (100, 1.5), (10000, 2), (1000000, 3), (10000, 1), (1, 0.5))   # the last one: known finding factor<1
        sizes = (0, 10, 1000, 70000) if tier == "thorough" else (0, 1000)
        ks = (12,) if tier == "thorough" else (6,)
        for kind, lvl, tout, (bw, f), jit in itertools.product(("pub1", "pub2", "rel", "sub", "unsub"), (3, 4), touts, bws,
                                                               ("const", "uniform", "adversarial")):
            for size in (sizes if kind.startswith("pub") else (0,)):
                for k in ks:
                    st = [("build", 0), ("setwin", 0, 4), ("settimeout", 0, tout), ("setbw", 0, bw, f),
                          ("connect", 0, True, 0, lvl), ("connack", 0, 0, False)]
                    if kind == "pub1":
                        st.append(("pub", 0, 1, False, size))
                    elif kind == "pub2":
                        st.append(("pub", 0, 2, False, size))
                    elif kind == "rel":
                        st += [("pub", 0, 2, False, 5), ("ack", 0, "PUBREC", "old")]
                    elif kind == "sub":
                        st.append(("sub", 0, "list", 2, 1))
                    else:
                        st.append(("unsub", 0, "list", 2))
                    other = [("pub", 0, 1, False, 3), ("sub", 0, "str", 1, 0), ("setwin", 0, 2), ("pub", 0, 0)]
                    for j in range(k):
                        st.append(("tick",))
                        if j == 2:
                            st.append(other[rng.randrange(len(other))])
                    prof = "pubsub"
                    yield C.SessionCase("retx-matrix/" + kind, Cfg(profile=prof, model="sync", jitter=jit, seed=seed + tout), steps=st)
        # the timeout changed between publish() and the first PUBREL (setTimeout while in flight, or a rebuilt protocol)
        for lvl in (3, 4):
            for t1, t2 in ((1, 60), (1, 9), (30, 2), (2, 1024)):
                head = [("build", 0), ("setwin", 0, 4), ("settimeout", 0, t1), ("connect", 0, False, 0, lvl), ("connack", 0, 0, False), ("pub", 0, 2, False, 5)]
                yield C.SessionCase("retx-timeout-change", Cfg(profile="pubsub", jitter="const"),
                                    steps=head + [("settimeout", 0, t2), ("ack", 0, "PUBREC", "old")] + [("tick",)] * 5)
                yield C.SessionCase("retx-timeout-change", Cfg(profile="pubsub", jitter="const"),
                                    steps=head + [("lose", 0, "lost"), ("build", 0), ("settimeout", 0, t2), ("connect", 0, False, 0, lvl),
                                                  ("connack", 0, 0, True), ("ack", 0, "PUBREC", "old")] + [("tick",)] * 5)
        # packets around and above 64 KiB (remaining length of 3 bytes), a few expiries and a resumption
        for lvl in (3, 4):
            for size in (65400, 65536, 70000) + ((300000,) if tier == "thorough" else ()):
                for q in (1, 2):
                    yield C.SessionCase("retx-big", Cfg(profile="pubsub", jitter="const"),
                                        steps=[("build", 0), ("setwin", 0, 2), ("setbw", 0, 1000000, 2), ("connect", 0, False, 0, lvl), ("connack", 0, 0, False),
                                               ("pub", 0, q, False, size), ("tick",), ("tick",), ("lose", 0, "lost"), ("build", 0),
                                               ("connect", 0, False, 0, lvl), ("connack", 0, 0, True), ("tick",), ("ack", 0, "PUBACK" if q == 1 else "PUBREC", "old")])
        # "for as long as it stays unacknowledged": 40 [120] consecutive expiries of one packet of each kind, then the acknowledgement
        n = 40 if tier == "quick" else 120
        for lvl in (3, 4):
            for model in MODELS:
                pre = [("build", 0), ("setwin", 0, 4), ("settimeout", 0, 1), ("setbw", 0, 100000, 1), ("connect", 0, True, 0, lvl), ("connack", 0, 0, False)]
                for first, acks in (([("pub", 0, 1, False, 40)], ["PUBACK"]), ([("pub", 0, 2, False, 40)], ["PUBREC", "PUBCOMP"]),
                                    ([("pub", 0, 2), ("ack", 0, "PUBREC", "old")], ["PUBCOMP"]),
                                    ([("sub", 0, "str", 1, 1)], ["SUBACK"]), ([("unsub", 0, "str", 1)], ["UNSUBACK"])):
                    yield C.SessionCase("long-retry", Cfg(profile="pubsub", model=model, jitter="uniform", seed=seed),
                                        steps=pre + first + [("tick",)] * n + [("ack", 0, a, "old") for a in acks] + [("pub", 0, 1)])


# ------------------------------------------------------------------------------ C09

@register
class P09(SessionPlan):
    prop = "C09"
    monitor = staticmethod(pub.c09)
    flavours = ("pubflow", "pubflow", "lossy", "timers")
    profiles = ("pub", "pubsub")
    rule = ("histories = seeded walks (QoS 2 heavy, persistent sessions, expiries, reconnects) plus every step sequence up to the sweep depth over "
            "{publish QoS 2, PUBREC, PUBCOMP, early PUBCOMP, duplicates, timer expiry, loss + persistent/clean reconnect}; "
            "non-trivial = at least one QoS 2 exchange or PUBREL was judged; distinct by (config, executed step list)")

    def walk_persistent(self, rng):
        return rng.random() < 0.7

    def required_counters(self, tier):
        return {"exchanges": 300, "pubrels": 200}

    def extra_cases(self, tier, seed):
        alpha = [("pub", 0, 2), ("ack", 0, "PUBREC", "old"), ("ack", 0, "PUBREC", "new"), ("ack", 0, "PUBCOMP", "old"),
                 ("early", 0, "PUBCOMP"), ("dupack", 0, "PUBREC"), ("dupack", 0, "PUBCOMP"), ("tick",), ("pub", 0, 1),
                 reconnect(0, False), reconnect(0, False, "lost", [("pub", 0, 2)]), reconnect(0, True)]
        depth = 4 if tier == "quick" else 5
        for lvl in (3, 4):
            for x in sweep_cases("sweep", cfgs(("pubsub",), ("sync",)), connected(clean=False, win=2, lvl=lvl), alpha, depth):
                yield x
        for x in other_client_id_cases():
            yield x
        rel_block = connected(clean=False, win=16)
        for _ in range(20):
            rel_block += [("pub", 0, 2), ("ack", 0, "PUBREC", "new")]
        for place in (65531, 65534):
            yield C.SessionCase("wrap-into-block", Cfg(profile="pubsub"), steps=rel_block + [("placeid", place)] + [("pub", 0, 2)] * 5)
        # the identifier counter wraps while exchanges sit in every stage
        stages = connected(clean=False, win=16) + [("pub", 0, 2), ("ack", 0, "PUBREC", "old"), ("pub", 0, 2), ("pub", 0, 2), ("pub", 0, 2)]
        for place in range(65528, 65536):
            for tail in ([("pub", 0, 2)] * 8, [("pub", 0, 1), ("ack", 0, "PUBACK", "new")] * 6 + [("pub", 0, 2)] * 3,
                         reconnect(0, False) + [("pub", 0, 2)] * 6):
                yield C.SessionCase("wrap-in-exchange", Cfg(profile="pubsub"), steps=stages + [("placeid", place)] + tail)


# ------------------------------------------------------------------------------ C10

@register
class P10(SessionPlan):
    prop = "C10"
    monitor = staticmethod(pub.c10)
    flavours = ("pubflow", "pubflow", "mixed", "lossy")
    profiles = ("pub", "pubsub")
    rule = ("histories = seeded walks (mixed-QoS publishing, window 1..16 changed at any time, acknowledgements in any order, resumed sessions) plus "
            "every step sequence up to the sweep depth; the window bound is checked at every first transmission, FIFO at every first transmission, "
            "the no-strand invariant after every step; non-trivial = at least one of these was evaluated; distinct by (config, executed step list)")

    def required_counters(self, tier):
        return {"first_tx": 1000, "strand_checks": 5000}

    def extra_cases(self, tier, seed):
        alpha = [("pub", 0, 0), ("pub", 0, 1), ("pub", 0, 2), ("ack", 0, "PUBACK", "old"), ("ack", 0, "PUBACK", "new"),
                 ("ack", 0, "PUBREC", "old"), ("ack", 0, "PUBCOMP", "old"), ("setwin", 0, 1), ("setwin", 0, 3),
                 reconnect(0, False, win=1), reconnect(0, True, pre=[("pub", 0, 1)])]
        for win in (1, 2):
            depth = 4 if tier == "quick" else (6 if win == 1 else 5)
            for x in sweep_cases("sweep", cfgs(("pubsub",), ("sync",)), connected(clean=False, win=win), alpha, depth):
                yield x


# ------------------------------------------------------------------------------ C11 / C12 / C13 (crash-point sweeps)

CONT_CLEAN = [[("build", 0), ("connect", 0, True, 0, 4), ("connack", 0, 0, False), ("pub", 0, 1), ("ack", 0, "PUBACK", "old"),
               ("sub", 0, "str", 1, 1), ("tick",)],
              [("build", 0), ("connect", 0, True, 0, 4), ("pub", 0, 2), ("connack", 0, 0, False), ("ack", 0, "PUBREC", "old")]]
CONT_PERS = [[("build", 0), ("connect", 0, False, 0, 4), ("connack", 0, 0, True), ("pub", 0, 1), ("ack", 0, "PUBACK", "old"),
              ("ack", 0, "PUBREC", "old"), ("tick",)],
             [("build", 0), ("setwin", 0, 4), ("connect", 0, False, 0, 3), ("pub", 0, 1), ("connack", 0, 0, True), ("tick",),
              ("lose", 0, "lost"), ("build", 0), ("connect", 0, False, 0, 4), ("connack", 0, 0, True)],
             [("build", 0), ("connect", 0, True, 0, 4), ("pub", 0, 1), ("connack", 0, 0, False), ("pub", 0, 2)],
             [("build", 0), ("connect", 0, False, 0, 4), ("lose", 0, "reset"), ("build", 0), ("connect", 0, False, 0, 4),
              ("connack", 0, 0, True), ("ack", 0, "PUBACK", "new")]]


class CrashPlan(SessionPlan):
    level = "fault_enumeration"
    persistent = None
    conts = CONT_CLEAN
    n_bases_quick = 40
    n_bases_thorough = 600
    n_quick = 10000
    n_thorough = 500000

    def walk_persistent(self, rng):
        if self.persistent is None:
            return None
        return self.persistent if rng.random() < 0.8 else (not self.persistent)

    def extra_cases(self, tier, seed):
        n = self.n_bases_quick if tier == "quick" else self.n_bases_thorough
        for model in MODELS:
            bases = base_histories(seed + 17, n, ("pubflow", "mixed", "subflow"), "pubsub", self.persistent,
                                   length=12 if tier == "quick" else 18, model=model)
            for bi, base in enumerate(bases):
                cfg = Cfg(profile="pubsub", model=model, close_delay=(0.0, 0.5)[bi % 2], seed=bi,
                          re_pub_on_fail=(bi % 5 == 0))
                losses = LOSSES if tier == "thorough" else [LOSSES[bi % len(LOSSES)], LOSSES[(bi + 2) % len(LOSSES)]]
                for x in crash_cases("crash-point", cfg, base, losses, self.conts):
                    yield x


@register
class P11(CrashPlan):
    prop = "C11"
    monitor = staticmethod(pub.c11)
    persistent = False
    conts = CONT_CLEAN
    flavours = ("lossy", "lossy", "mixed", "pubflow", "subflow")
    rule = ("fault enumeration: every prefix of every base history (seeded clean-session walks) is cut by each loss kind (broker close, network failure, "
            "disconnect(), abort after an unknown packet type, abort after a malformed CONNACK) on both transport models, followed by a fresh protocol "
            "for the same address and further traffic; plus seeded lossy walks; non-trivial = a clean-session loss with its pending set, or a following "
            "connection, was judged; distinct by (config, executed step list)")

    def required_counters(self, tier):
        return {"clean_losses": 1000, "pending_at_loss": 500, "next_connections": 500}


@register
class P12(CrashPlan):
    prop = "C12"
    monitor = staticmethod(pub.c12)
    persistent = True
    conts = CONT_PERS
    flavours = ("lossy", "lossy", "pubflow", "mixed")
    profiles = ("pub", "pubsub")
    rule = ("fault enumeration: every prefix of every base history (seeded persistent-session walks) is cut by each loss kind on both transport models, "
            "up to 3 losses in a row, each followed by a rebuilt protocol that connects with cleanStart False or True, publishes before and after its CONNACK, "
            "with an acknowledging, repeating or silent broker; plus seeded lossy walks; non-trivial = a persistent loss, a resumption or a purge was judged; "
            "distinct by (config, executed step list)")

    def required_counters(self, tier):
        return {"persistent_losses": 1000, "resumptions": 500, "carried": 300, "released": 50, "carried_into_clean": 100,
                "preconnack_requests": 100}

    def extra_cases(self, tier, seed):
        return itertools.chain(other_client_id_cases(), CrashPlan.extra_cases(self, tier, seed))


@register
class P13(CrashPlan):
    prop = "C13"
    level = "exploration"
    monitor = staticmethod(timing.c13)
    persistent = None
    conts = CONT_CLEAN + CONT_PERS[:2]
    n_bases_quick = 12
    flavours = ("mixed", "timers", "lossy", "pubflow", "subflow")
    rule = ("the delayed-call table of the reactor is compared with the boundary state after every step of every history (seeded walks over all "
            "profiles, both session modes and transports; crash-point sweeps), then once more after every connection is lost and 6000 s of virtual time; "
            "writes are checked against settled requests and reported losses; non-trivial = at least one snapshot was judged; "
            "distinct by (config, executed step list)")

    def required_counters(self, tier):
        return {"snapshots": 50000, "final": 1000}


# ------------------------------------------------------------------------------ C14

@register
class P14(SessionPlan):
    prop = "C14"
    monitor = staticmethod(conn.c14)
    rule = ("exhaustive matrix 3 profiles x {fresh idle, connecting, connected, idle after refused CONNACK, lost} x 5 operations x 9 broker packet types "
            "x 2 transport models, with and without requests pending, plus the same probes at random points of seeded walks and from re-entrant "
            "callbacks; non-trivial = at least one operation or foreign packet was judged; distinct by (config, executed step list)")
    n_quick = 12000

    def exhaustive(self, tier):
        return ["profile x protocol state x API operation", "profile x protocol state x broker packet type"]

    def min_deciding(self, tier):
        return 1000

    def tune_cfg(self, cfg, rng):
        cfg.re_pub_on_fail = rng.random() < 0.4
        return cfg

    def extra_cases(self, tier, seed):
        ops = [("connect", 0, True, 0, 4), ("pub", 0, 0), ("pub", 0, 1), ("pub", 0, 2), ("sub", 0, "str", 1, 1),
               ("sub", 0, "list", 2, 0), ("unsub", 0, "str", 1), ("unsub", 0, "list", 2), ("disconnect", 0)]
        pkts = [("connack", 0, 0, False), ("connack", 0, 3, False), ("pingresp", 0), ("stray", 0, "SUBACK"), ("stray", 0, "UNSUBACK"),
                ("inpub", 0, 0), ("inpub", 0, 1), ("inpub", 0, 2), ("inrel", 0, "unknown"), ("stray", 0, "PUBACK"),
                ("stray", 0, "PUBREC"), ("stray", 0, "PUBCOMP"), ("preack", 0, "PUBACK"), ("preack", 0, "PUBREC")]
        states = {
            "idle": [("build", 0)],
            "connecting": [("build", 0), ("connect", 0, True, 0, 4)],
            "connecting-busy": [("build", 0), ("setwin", 0, 3), ("connect", 0, False, 0, 3), ("pub", 0, 1), ("pub", 0, 2)],
            "connected": connected(),
            "connected-busy": connected(win=3) + [("pub", 0, 1), ("pub", 0, 2), ("sub", 0, "str", 1, 1), ("unsub", 0, "str", 1)],
            "refused": [("build", 0), ("connect", 0, True, 0, 4), ("connack", 0, 2, False)],
            "lost": connected() + [("pub", 0, 1), ("lose", 0, "done")],
            "lost-fresh": [("build", 0), ("lose", 0, "lost")],
            # the same protocol object connected again after a loss (S175): its profile must still hold
            "again-connecting": connected() + [("lose", 0, "lost"), ("adv", 1), ("reuse", 0), ("connect", 0, True, 0, 4)],
            "again-connected": connected() + [("pub", 0, 1), ("lose", 0, "done"), ("adv", 1), ("reuse", 0), ("connect", 0, True, 0, 4), ("connack", 0, 0, False)],
        }
        for prof in ("pub", "sub", "pubsub"):
            for model in MODELS:
                cfg = Cfg(profile=prof, model=model, onconn=(model == "sync"), re_on_refuse=("publish" if model == "tcp" else None))
                for sname, pre in states.items():
                    for probe in ops + pkts:
                        if probe[0] == "connect" and sname in ("lost", "lost-fresh", "refused"):
                            continue
                        yield C.SessionCase("matrix/" + sname, cfg, steps=list(pre) + [probe])
                    for n2, (p1, p2) in enumerate(itertools.product(ops[1:], pkts)):
                        if tier == "thorough" or n2 % 4 == 0:
                            yield C.SessionCase("matrix2/" + sname, cfg, steps=list(pre) + [p2, p1])


# ------------------------------------------------------------------------------ C15

@register
class P15(SessionPlan):
    prop = "C15"
    stalls = False      # this check judges exact deadlines
    monitor = staticmethod(conn.c15)
    flavours = ("timers", "timers", "mixed")
    rule = ("histories = keepalive matrix: k in {1,2,5,60,600,65535} x PINGRESP offsets {eps, k/2, k-eps, exactly k, k+eps, never, twice, unsolicited} "
            "x other traffic x 2 transports x 3 profiles, runs of up to 200 periods, k=0 runs, plus seeded timer-heavy walks with random k; "
            "non-trivial = at least one keepalive connection was judged; distinct by (config, executed step list)")

    def walk_keepalive(self, rng):
        return rng.choice([0, 1, 2, 5, 60, 600])

    def required_counters(self, tier):
        return {"k>0": 500, "k0": 100, "pingreqs": 2000, "answered": 500, "unanswered": 100}

    def extra_cases(self, tier, seed):
        ks = (1, 2, 5, 60, 600, 65535)
        periods = 8 if tier == "quick" else 200
        for k, prof, model, late in itertools.product(ks, ("pub", "sub", "pubsub"), MODELS, (0.0, 0.25)):
            if late and prof != "pubsub":
                continue
            cfg = Cfg(profile=prof, model=model, late=late)
            pre = [("build", 0), ("connect", 0, True, k, 4), ("connack", 0, 0, False)]
            eps = min(0.25, k / 8.0)
            for off in ("eps", "half", "late-in-time", "exact", "late", "never", "twice", "unsolicited"):
                st = list(pre)
                for p in range(periods if off in ("eps", "half", "late-in-time", "twice", "unsolicited") else 2):
                    if off == "eps":
                        st += [("adv", eps), ("pingresp", 0), ("adv", k - eps)]
                    elif off == "half":
                        st += [("adv", k / 2.0), ("pingresp", 0), ("pub", 0, 1), ("adv", k / 2.0)]
                    elif off == "late-in-time":
                        st += [("adv", k - eps), ("pingresp", 0), ("adv", eps)]
                    elif off == "twice":
                        st += [("adv", eps), ("pingresp", 0), ("pingresp", 0), ("adv", k - eps)]
                    elif off == "unsolicited":
                        st += [("adv", eps), ("pingresp", 0), ("adv", eps), ("pingresp", 0), ("adv", k - 2 * eps)]
                    elif off == "exact":
                        st += [("adv", k), ("pingresp", 0)]
                    elif off == "late":
                        st += [("adv", k + eps), ("pingresp", 0)]
                    else:
                        st += [("adv", k * 1.5)]
                    if p % 50 == 49:
                        st += [("sub", 0, "str", 1, 0), ("ack", 0, "SUBACK", "old")]
                yield C.SessionCase("keepalive-matrix/" + off, cfg, steps=st)
            if k < 1000:
                for k1, k2 in ((k, 0), (0, k), (k, k + 3)):
                    yield C.SessionCase("keepalive-matrix/after-refusal", cfg,
                                        steps=[("build", 0), ("connect", 0, True, k1, 4), ("connack", 0, 4, False), ("connect", 0, True, k2, 4),
                                               ("connack", 0, 0, False), ("adv", (k2 or k1) * 1.5), ("pingresp", 0), ("adv", (k2 or k1) * 2.5)])
            yield C.SessionCase("keepalive-matrix/k0", cfg, steps=[("build", 0), ("connect", 0, True, 0, 4), ("connack", 0, 0, False),
                                                                   ("adv", 1000), ("pub", 0, 1), ("adv", 100000)])
            for extra in ({"willTopic": "w", "willMessage": "m"}, {"username": "u", "password": "p"},
                          {"willTopic": "w", "willMessage": "", "willQoS": 1, "willRetain": True, "username": "u"}):
                yield C.SessionCase("keepalive-matrix/k0-options", cfg, steps=[("build", 0), ("connect", 0, True, 0, 4 if k % 2 else 3, extra),
                                                                               ("connack", 0, 0, False), ("adv", 1000), ("pub", 0, 1), ("adv", 100000)])
                if k < 1000:
                    yield C.SessionCase("keepalive-matrix/k-options", cfg, steps=[("build", 0), ("connect", 0, True, k, 4, extra), ("connack", 0, 0, False),
                                                                                  ("adv", k / 2.0), ("pingresp", 0), ("adv", k), ("pingresp", 0), ("adv", 3 * k)])
            yield C.SessionCase("keepalive-matrix/reconnect", cfg, steps=pre + [("adv", k * 2.5 if k < 1000 else 10), ("lose", 0, "lost"), ("adv", k * 3),
                                                                           ("build", 0), ("connect", 0, True, 0, 4), ("connack", 0, 0, False), ("adv", k * 3)])


# ------------------------------------------------------------------------------ C16

ALPHA16 = [0x00, 0x01, 0x02, 0x04, 0x7F, 0x80, 0xFF, 0x20, 0x30, 0x32, 0x34, 0x40, 0x90, 0xD0]


def hostile_blobs(tier, seed):
    from . import refcodec as rc
    maxlen = 3 if tier == "quick" else 4
    for n in range(1, maxlen + 1):
        for combo in itertools.product(ALPHA16, repeat=n):
            yield bytes(combo)
    valid = [rc.encode({"t": "CONNACK", "rc": 0, "session": False}), rc.encode({"t": "CONNACK", "rc": 6, "session": True}),
             rc.encode({"t": "PUBLISH", "qos": 0, "topic": "a/b", "payload": b"xyz"}),
             rc.encode({"t": "PUBLISH", "qos": 1, "topic": "a/é", "id": 7, "payload": b"xyz"}),
             rc.encode({"t": "PUBLISH", "qos": 2, "topic": "a", "id": 9, "payload": b""}),
             rc.encode({"t": "PUBACK", "id": 1}), rc.encode({"t": "PUBREC", "id": 2}), rc.encode({"t": "PUBREL", "id": 9}),
             rc.encode({"t": "PUBCOMP", "id": 2}), rc.encode({"t": "SUBACK", "id": 3, "codes": [0, 0x80]}),
             rc.encode({"t": "UNSUBACK", "id": 4}), rc.encode({"t": "PINGRESP"}),
             rc.encode({"t": "CONNECT", "clean": True, "keepalive": 1, "clientId": "x"}), rc.encode({"t": "SUBSCRIBE", "id": 1, "topics": [("a", 0)]}),
             rc.encode({"t": "UNSUBSCRIBE", "id": 1, "topics": ["a"]}), rc.encode({"t": "PINGREQ"}), rc.encode({"t": "DISCONNECT"})]
    for kind in ("PUBACK", "PUBREC", "PUBREL", "PUBCOMP", "UNSUBACK", "SUBACK"):
        for ident in range(1, 12):      # acknowledgements of every type for identifiers that are (or were) in use
            p = {"t": kind, "id": ident}
            if kind == "SUBACK":
                for codes in ([0], [0, 1], [2, 0x80, 1], []):
                    p["codes"] = codes
                    yield b"T" + rc.encode(p)       # leading 'T': targeted, goes to every context
            else:
                yield b"T" + rc.encode(p)
    for v in valid:
        yield v
        for i in range(len(v)):
            for rep in (0x00, 0x01, 0x7F, 0x80, 0xFF, v[i] ^ 0x01, v[i] ^ 0x80):
                yield v[:i] + bytes((rep,)) + v[i + 1:]
        for flags in range(16):         # every flag nibble, e.g. a PUBLISH with both QoS bits set
            if (v[0] & 0xF0) | flags != v[0]:
                yield bytes(((v[0] & 0xF0) | flags,)) + v[1:]
        for i in range(1, len(v)):
            yield v[:i]
        for ext in (b"\x00", b"\xff\xff", b"\x00\x01\x02"):
            yield v + ext
    for first in range(256):
        for body in itertools.chain([b""], (bytes((x,)) for x in ALPHA16), (bytes(c) for c in itertools.product(ALPHA16[:7], repeat=2))):
            yield bytes((first,)) + body
    rng = random.Random(seed + 5)
    for _ in range(2000 if tier == "quick" else 100000):
        n = rng.choice([1, 2, 3, 5, 8, 13, 40])
        yield bytes(rng.randrange(256) for _ in range(n))


def _publish_ident(blob):
    """The two identifier bytes of a PUBLISH-shaped blob with QoS bits set that is exactly one
    framed packet (so that what follows it on the stream starts a new packet)."""
    if len(blob) < 7 or blob[0] >> 4 != 3 or not (blob[0] & 0x06):
        return None
    rem, mult, i = 0, 1, 1
    while True:
        if i >= len(blob) or i > 4:
            return None
        rem += (blob[i] & 0x7F) * mult
        mult *= 128
        i += 1
        if not blob[i - 1] & 0x80:
            break
    if i + rem != len(blob) or i + 2 > len(blob):
        return None
    tl = (blob[i] << 8) | blob[i + 1]
    j = i + 2 + tl
    if j + 2 > len(blob) or blob[j:j + 2] == b"\x00\x00":
        return None
    return bytes(blob[j:j + 2])


@register
class P16(SessionPlan):
    prop = "C16"
    monitor = staticmethod(hostile.c16)
    n_quick = 8000
    rule = ("inputs = all byte strings up to length 3 (quick) / 4 (thorough) over a 14-symbol alphabet, every valid broker packet with each byte replaced by "
            "{00,01,7F,80,FF,^01,^80}, truncated at every length and extended, every first byte 0..255 with all bodies up to length 2 over the alphabet, "
            "and seeded random streams; each injected into one of 16 contexts (profile x idle/connecting/connected, requests of every kind pending, keepalive on/off, "
            "both transports) chosen round-robin (thorough: every context); plus seeded walks; non-trivial = an inbound step was judged; distinct by (config, executed step list)")

    def required_counters(self, tier):
        return {"raw_steps": 5000, "inbound_steps": 10000}

    def contexts(self):
        busy = connected(win=3, ka=0) + [("pub", 0, 1), ("pub", 0, 2), ("pub", 0, 2), ("ack", 0, "PUBREC", "old"), ("pub", 0, 1), ("pub", 0, 1),
                                         ("sub", 0, "list", 2, 1), ("unsub", 0, "str", 1), ("inpub", 0, 2)]
        out = []
        for prof in ("pubsub", "pub", "sub"):
            for model in MODELS:
                out.append((Cfg(profile=prof, model=model), busy))
        out.append((Cfg(profile="pubsub", model="sync"), [("placeid", 255)] + busy))      # identifiers 256.. pending
        out.append((Cfg(profile="pubsub", model="tcp"), [("placeid", 0x3FFF)] + busy))    # identifiers 0x4000.. pending
        out.append((Cfg(profile="pubsub", model="tcp"), [("build", 0)]))
        out.append((Cfg(profile="pubsub", model="sync"), [("build", 0), ("connect", 0, True, 0, 4), ("pub", 0, 1)]))
        out.append((Cfg(profile="sub", model="tcp"), [("build", 0), ("connect", 0, False, 0, 3)]))
        out.append((Cfg(profile="pubsub", model="sync"), connected(clean=False, ka=5, win=2) + [("pub", 0, 2), ("pub", 0, 1), ("pub", 0, 1), ("sub", 0, "str", 1, 2)]))
        out.append((Cfg(profile="pubsub", model="tcp", re_pub_on_fail=True), busy))
        out.append((Cfg(profile="pub", model="sync"), connected(ka=2) + [("adv", 1.0), ("pub", 0, 1)]))
        out.append((Cfg(profile="sub", model="sync"), connected(lvl=3) + [("sub", 0, "str", 1, 1), ("inpub", 0, 2), ("inpub", 0, 2)]))
        out.append((Cfg(profile="pubsub", model="sync"), connected() + [("pub", 0, 2), ("ack", 0, "PUBREC", "old"), ("ack", 0, "PUBCOMP", "old")]))
        return out

    def extra_cases(self, tier, seed):
        ctxs = self.contexts()
        # very many small packets in one segment (a broker flushing its backlog; a flood)
        from . import refcodec as rc
        many = 1500 if tier == "quick" else 20000
        floods = [rc.encode({"t": "PINGRESP"}) * many, rc.encode({"t": "PUBACK", "id": 40000}) * many,
                  rc.encode({"t": "PUBLISH", "qos": 0, "topic": "f", "payload": b""}) * many,
                  (rc.encode({"t": "PUBCOMP", "id": 40001}) + rc.encode({"t": "UNSUBACK", "id": 40002})) * (many // 2)]
        for ci in (0, 1, 4, 8, 9, 13):
            for blob in floods:
                yield C.SessionCase("flood/ctx%d" % ci, ctxs[ci][0], steps=list(ctxs[ci][1]) + [("raw", 0, blob), ("pub", 0, 1), ("sub", 0, "str", 1, 0)])
        # state left by EARLIER input (S173): a well-formed PUBLISH for a topic, then a PUBLISH cut right after the same
        # topic bytes whose topic length declares more than follows -- alone, together in one segment, and on the next connection
        for T in (b"a/b", b"t\xc3\xa9l\xc3\xa9/m\xc3\xa8tre", b"x" * 200):
            good = bytes([0x30]) + _rl(2 + len(T) + 1) + len(T).to_bytes(2, "big") + T + b"p"
            for k in (1, 2, 256):
                cut = bytes([0x30]) + _rl(2 + len(T)) + (len(T) + k).to_bytes(2, "big") + T
                for ci in (0, 5, 8):
                    cfg, pre = ctxs[ci]
                    yield C.SessionCase("hostile/after-good", cfg, steps=list(pre) + [("raw", 0, good), ("raw", 0, cut)])
                    yield C.SessionCase("hostile/after-good", cfg, steps=list(pre) + [("raw", 0, good + cut)])
                    yield C.SessionCase("hostile/after-good", cfg, steps=list(pre) + [("raw", 0, good), ("raw", 0, good), ("raw", 0, cut), ("raw", 0, good)])
        for n, blob in enumerate(hostile_blobs(tier, seed)):
            targeted = blob[:1] == b"T" and len(blob) > 2 and blob[1] >> 4 in (4, 5, 6, 7, 9, 11)
            if targeted:
                blob = blob[1:]
            ackish = 2 <= len(blob) <= 3 and blob[0] in (0x40, 0x50, 0x62, 0x70, 0x90, 0xB0)
            if targeted or (tier == "thorough" and len(blob) <= 3):
                which = range(len(ctxs))
            elif ackish:
                which = range(8)            # every context with requests pending
            else:
                which = [(n + seed) % len(ctxs)]
            for ci in which:
                cfg, pre = ctxs[ci]
                yield C.SessionCase("hostile/ctx%d" % ci, cfg, steps=list(pre) + [("raw", 0, blob)])
            # delayed effects: a PUBLISH-shaped blob may leave something behind that a later, well-formed
            # PUBREL for the same identifier turns into a delivery
            ident = _publish_ident(blob)
            if ident is not None:
                for ci in (0, 5) if not targeted else (0,):
                    cfg, pre = ctxs[ci]
                    yield C.SessionCase("hostile+pubrel", cfg, steps=list(pre) + [("raw", 0, blob), ("raw", 0, b"\x62\x02" + ident)])


# ------------------------------------------------------------------------------ C17

def _rl(n):
    """MQTT remaining-length bytes of n."""
    out = bytearray()
    while True:
        n, b = divmod(n, 128)
        out.append(b | (0x80 if n else 0))
        if not n:
            return bytes(out)


@register
class P17(SessionPlan):
    prop = "C17"
    monitor = staticmethod(pub.c17)
    rule = ("every Deferred returned and every identifier written in seeded walks over one and two addresses, plus wrap workloads: the identifier counter placed at "
            "65530..65535 while held-back, in-flight, released, SUBSCRIBE and UNSUBSCRIBE requests and a preserved persistent session hold identifiers 1..8, "
            "and (thorough) walks of >70000 acknowledged requests that wrap on their own; non-trivial = at least one allocation was judged; "
            "distinct by (config, executed step list)")

    def required_counters(self, tier):
        return {"allocations": 5000, "wire_ids": 5000}

    def walk_cases(self, tier, seed, n=None, family="walk"):
        for c in SessionPlan.walk_cases(self, tier, seed, n, family):
            if c.walk["seed"] % 3 == 0:
                c.walk["addrs"] = (0, 1)
            yield c

    def extra_cases(self, tier, seed):
        hold = connected(clean=False, win=2) + [("pub", 0, 1), ("pub", 0, 2), ("ack", 0, "PUBREC", "old"), ("pub", 0, 2), ("pub", 0, 1), ("pub", 0, 1),
                                                ("sub", 0, "str", 1, 1), ("unsub", 0, "str", 1)]
        tails = [[("pub", 0, 1)] * 12, [("sub", 0, "str", 1, 0), ("ack", 0, "SUBACK", "new")] * 8,
                 [("unsub", 0, "str", 1), ("ack", 0, "UNSUBACK", "new")] * 8,
                 [("pub", 0, 2), ("pub", 0, 1), ("ack", 0, "PUBACK", "new")] * 6,
                 reconnect(0, False) + [("pub", 0, 1)] * 10,
                 [("build", 1), ("connect", 1, True, 0, 4), ("connack", 1, 0, False), ("setwin", 1, 8)] + [("pub", 1, 1), ("sub", 1, "str", 1, 1)] * 6]
        # second state: publish window empty (its only QoS 2 message has been PUBREC'd) while a message is still held back
        hold2 = connected(clean=False, win=1) + [("pub", 0, 2), ("pub", 0, 1), ("pub", 0, 2), ("ack", 0, "PUBREC", "old")]
        for place in range(65526, 65536):
            for tail in tails:
                for h in (hold, hold2):
                    yield C.SessionCase("wrap-placed", Cfg(profile="pubsub"), steps=h + [("placeid", place)] + tail)
        # long blocks of consecutive unfinished identifiers right after the wrap point
        block1 = connected(clean=False, win=1) + [("pub", 0, 1)] * 70                      # 1 in flight, 69 held back
        block2 = connected(clean=False, win=16)
        for _ in range(20):
            block2 += [("pub", 0, 2), ("ack", 0, "PUBREC", "new")]                        # 20 exchanges waiting for PUBCOMP
        for blk in (block1, block2):
            for place in (65530, 65533, 65535):
                for tail in ([("pub", 0, 1)] * 6, [("sub", 0, "str", 1, 0)] + [("pub", 0, 2)] * 4):
                    yield C.SessionCase("wrap-into-block", Cfg(profile="pubsub"), steps=blk + [("placeid", place)] + tail)
        # a refused request (window full, bad argument) has taken an identifier; the counter then comes round to it
        for kind, ack in ((("unsub", 0, "str", 1), "UNSUBACK"), (("sub", 0, "str", 1, 1), "SUBACK")):
            bad = ("call", 0, "unsubscribe" if kind[0] == "unsub" else "subscribe", (5,), {})
            for refused in ([kind], [bad], [kind, bad, kind]):
                for place in (0, 1, 2, 3, 4, 5, 65533, 65534, 65535):
                    yield C.SessionCase("refused-then-wrap", Cfg(profile="pubsub"),
                                        steps=connected(win=1) + [kind] + refused + [("placeid", place), ("pub", 0, 1), ("pub", 0, 2), ("ack", 0, ack, "old"),
                                                                                     kind, ("pub", 0, 1), ("ack", 0, ack, "old"), kind])
        # the session ends (purge) with the counter standing just before the identifiers being failed, while errbacks publish again
        for x in reentrant_end_cases(places=(0, 1, 2, 3, 4, 65535)):
            yield x
        if tier == "thorough":
            st = connected(clean=False, win=2) + [("pub", 0, 2), ("ack", 0, "PUBREC", "old"), ("sub", 0, "str", 1, 1), ("setwin", 0, 4)]
            st += [("pub", 0, 1), ("ack", 0, "PUBACK", "new")] * 70000
            yield C.SessionCase("wrap-natural", Cfg(profile="pubsub"), steps=st)


# ------------------------------------------------------------------------------ C18

@register
class P18(SessionPlan):
    prop = "C18"
    monitor = staticmethod(conn.c18)
    flavours = ("lossy", "mixed", "timers", "pubflow", "subflow")
    rule = ("the complete byte stream of every connection of every history is parsed by the strict reference decoder and checked against the phase of the "
            "transport (open / closing / aborting / loss reported); histories = seeded walks (TCP-like transport with immediate and delayed loss reports, "
            "API calls and timer expiries inside the closing interval, re-entrant callbacks) plus every step sequence up to the sweep depth around disconnect(); "
            "non-trivial = at least one connection wrote something; distinct by (config, executed step list)")

    def tune_cfg(self, cfg, rng):
        if rng.random() < 0.6:
            cfg.model = "tcp"
        cfg.close_delay = rng.choice([0.0, 0.5, 5.0, 30.0])
        return cfg

    def required_counters(self, tier):
        return {"connections": 3000, "packets": 20000}

    def extra_cases(self, tier, seed):
        alpha = [("disconnect", 0), ("pub", 0, 0), ("pub", 0, 1), ("sub", 0, "str", 1, 1), ("unsub", 0, "str", 1), ("tick",), ("adv", 6),
                 ("raw", 0, b"\xf0\x00"), ("lose", 0, "done"), ("raw", 0, b"\x90\x01\x00"), ("connect", 0, True, 0, 4)]
        depth = 3 if tier == "quick" else 4
        cs = [Cfg(profile=p, model="tcp", close_delay=d, re_pub_on_fail=r) for p in ("pubsub", "pub", "sub") for d in (0.0, 20.0) for r in (False, True)]
        cs += [Cfg(profile="pubsub", model="sync", re_pub_on_fail=True)]
        cs += [Cfg(profile="pubsub", model=m, close_delay=5.0, re_disc_on=w) for m in MODELS for w in ("ack", "suback", "onpublish", "connmade", "connected", "fail")]
        alpha = alpha + [("ack", 0, "PUBACK", "old"), ("ack", 0, "SUBACK", "old"), ("inpub", 0, 1)]
        pre = connected(ka=5, win=2) + [("pub", 0, 1), ("pub", 0, 2), ("sub", 0, "str", 1, 0)]
        # a clean connection over a persistent session whose purge fires errbacks (from which the application may disconnect)
        purge = connected(clean=False, win=1) + [("pub", 0, 1), ("pub", 0, 2), ("lose", 0, "done"), ("build", 0), ("connect", 0, True, 0, 4), ("pub", 0, 1)]
        extra = [C.SessionCase("purge-errback", Cfg(profile="pubsub", model="tcp", close_delay=d, re_disc_on="fail", re_pub_on_fail=r),
                               steps=purge + [("connack", 0, 0, False), ("adv", 9), ("pub", 0, 1)])
                 for d in (0.0, 5.0) for r in (False, True)]
        # several packets in one segment, the application disconnecting while the first is handled: the rest of the
        # segment arrives on a protocol that is closing
        for prof in ("pubsub", "sub"):
            for model in MODELS:
                for qoss in ((1, 1), (2, 1), (0, 0, 1), (1, 2, 2), (2, 2)):
                    extra.append(C.SessionCase("burst-disconnect", Cfg(profile=prof, model=model, close_delay=5.0, re_disc_on="onpublish"),
                                               steps=connected(ka=5) + [("sub", 0, "str", 1, 1), ("inburst", 0, qoss), ("adv", 1), ("inrel", 0, "known"), ("adv", 9)]))
        return itertools.chain(extra,
            sweep_cases("closing-sweep", cs, pre, alpha, depth),
            sweep_cases("connecting-sweep", cs[:6], [("build", 0), ("connect", 0, True, 5, 4)],
                        alpha + [("connack", 0, 0, False), ("connack", 0, 3, False)], depth))
