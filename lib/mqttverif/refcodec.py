"""Independent reference codec for MQTT 3.1 / 3.1.1, written from the OASIS
text (mqtt-v3.1.1-os, sections 1.5.3, 2.2, 2.3, 3.1-3.14) and the IBM 3.1
specification.  Shares no code with mqtt/pdu.py.

encode(pkt, level)  -> bytes                pkt is a dict with key 't' (type name)
decode(data, level) -> dict                 strict; raises Malformed(reason, tier)
split(buf)          -> (packets, rest, err) frame a byte stream into whole packets

Malformed.tier is 'structural' (cannot be parsed as the packet it claims to
be) or 'pedantic' (parseable, but violates a reserved-bits / content rule).
"""

TYPES = {1: "CONNECT", 2: "CONNACK", 3: "PUBLISH", 4: "PUBACK", 5: "PUBREC",
         6: "PUBREL", 7: "PUBCOMP", 8: "SUBSCRIBE", 9: "SUBACK",
         10: "UNSUBSCRIBE", 11: "UNSUBACK", 12: "PINGREQ", 13: "PINGRESP",
         14: "DISCONNECT"}
CODES = {v: k for k, v in TYPES.items()}
CLIENT_TYPES = {"CONNECT", "PUBLISH", "PUBACK", "PUBREC", "PUBREL", "PUBCOMP",
                "SUBSCRIBE", "UNSUBSCRIBE", "PINGREQ", "DISCONNECT"}
SERVER_TYPES = {"CONNACK", "PUBLISH", "PUBACK", "PUBREC", "PUBREL", "PUBCOMP",
                "SUBACK", "UNSUBACK", "PINGRESP"}
PROTO = {3: "MQIsdp", 4: "MQTT"}
MAX_REMAINING = 268435455


class Malformed(Exception):
    def __init__(self, reason, tier="structural"):
        Exception.__init__(self, reason)
        self.reason = reason
        self.tier = tier


# ------------------------------------------------------------------ primitives

def enc_len(n):
    if not (0 <= n <= MAX_REMAINING):
        raise ValueError("remaining length out of range: %r" % (n,))
    out = bytearray()
    while True:
        d = n & 0x7F
        n >>= 7
        if n:
            out.append(d | 0x80)
        else:
            out.append(d)
            return bytes(out)


def dec_len(buf, pos=0):
    """-> (value, bytes used) ; None if incomplete; Malformed if > 4 bytes."""
    val = 0
    for i in range(4):
        if pos + i >= len(buf):
            return None
        b = buf[pos + i]
        val |= (b & 0x7F) << (7 * i)
        if not b & 0x80:
            return val, i + 1
    raise Malformed("remaining length longer than 4 bytes")


def enc_u16(v):
    if not isinstance(v, int) or isinstance(v, bool) and False:
        raise TypeError("integer required")
    if not (0 <= v <= 0xFFFF):
        raise ValueError("16-bit value out of range: %r" % (v,))
    return bytes(((v >> 8) & 0xFF, v & 0xFF))


def enc_str(s):
    b = s.encode("utf-8") if isinstance(s, str) else bytes(s)
    if len(b) > 0xFFFF:
        raise ValueError("string longer than 65535 bytes")
    return enc_u16(len(b)) + b


def enc_bin(b):
    b = b.encode("utf-8") if isinstance(b, str) else bytes(b)
    if len(b) > 0xFFFF:
        raise ValueError("binary field longer than 65535 bytes")
    return enc_u16(len(b)) + b


class _R(object):
    """Cursor over the variable header + payload of one packet."""

    def __init__(self, body):
        self.b = body
        self.p = 0

    def left(self):
        return len(self.b) - self.p

    def u8(self, what):
        if self.left() < 1:
            raise Malformed("truncated: " + what)
        v = self.b[self.p]
        self.p += 1
        return v

    def u16(self, what):
        if self.left() < 2:
            raise Malformed("truncated: " + what)
        v = (self.b[self.p] << 8) | self.b[self.p + 1]
        self.p += 2
        return v

    def raw(self, n, what):
        if self.left() < n:
            raise Malformed("truncated: " + what)
        v = bytes(self.b[self.p:self.p + n])
        self.p += n
        return v

    def string(self, what):
        n = self.u16(what + " length")
        raw = self.raw(n, what)
        try:
            return raw.decode("utf-8")
        except UnicodeDecodeError:
            raise Malformed("invalid UTF-8 in " + what)

    def rest(self):
        v = bytes(self.b[self.p:])
        self.p = len(self.b)
        return v


# -------------------------------------------------------------------- encoding

def _payload_bytes(p):
    if isinstance(p, str):
        return p.encode("utf-8")
    if isinstance(p, (bytes, bytearray)):
        return bytes(p)
    raise TypeError("unsupported payload type %s" % type(p).__name__)


def encode(pkt, level=4):
    t = pkt["t"]
    if t == "CONNECT":
        lvl = pkt.get("level", level)
        vh = enc_str(PROTO[lvl]) + bytes((lvl,))
        flags = 0
        if pkt.get("clean"):
            flags |= 0x02
        will = pkt.get("willTopic") is not None
        if will:
            flags |= 0x04 | ((pkt.get("willQoS", 0) & 3) << 3)
            if pkt.get("willRetain"):
                flags |= 0x20
        if pkt.get("username") is not None:
            flags |= 0x80
        if pkt.get("password") is not None:
            flags |= 0x40
        vh += bytes((flags,)) + enc_u16(pkt["keepalive"])
        pl = enc_str(pkt["clientId"])
        if will:
            pl += enc_str(pkt["willTopic"]) + enc_bin(pkt["willMessage"])
        if pkt.get("username") is not None:
            pl += enc_str(pkt["username"])
        if pkt.get("password") is not None:
            pl += enc_bin(pkt["password"])
        body = vh + pl
        first = 0x10
    elif t == "CONNACK":
        body = bytes((1 if pkt.get("session") else 0, pkt["rc"]))
        first = 0x20
    elif t == "PUBLISH":
        qos = pkt["qos"]
        if qos not in (0, 1, 2):
            raise ValueError("qos")
        first = 0x30 | (0x08 if pkt.get("dup") else 0) | (qos << 1) | (1 if pkt.get("retain") else 0)
        body = enc_str(pkt["topic"])
        if qos:
            body += enc_u16(pkt["id"])
        body += _payload_bytes(pkt["payload"])
    elif t in ("PUBACK", "PUBREC", "PUBCOMP", "UNSUBACK"):
        first = CODES[t] << 4
        body = enc_u16(pkt["id"])
    elif t == "PUBREL":
        first = 0x62 | (0x08 if pkt.get("dup") else 0)
        body = enc_u16(pkt["id"])
    elif t == "SUBSCRIBE":
        first = 0x82 | (0x08 if pkt.get("dup") else 0)
        body = enc_u16(pkt["id"])
        for topic, qos in pkt["topics"]:
            if qos not in (0, 1, 2):
                raise ValueError("qos")
            body += enc_str(topic) + bytes((qos,))
    elif t == "SUBACK":
        first = 0x90
        body = enc_u16(pkt["id"]) + bytes(pkt["codes"])
    elif t == "UNSUBSCRIBE":
        first = 0xA2 | (0x08 if pkt.get("dup") else 0)
        body = enc_u16(pkt["id"])
        for topic in pkt["topics"]:
            body += enc_str(topic)
    elif t in ("PINGREQ", "PINGRESP", "DISCONNECT"):
        first = CODES[t] << 4
        body = b""
    else:
        raise ValueError("unknown packet type %r" % (t,))
    return bytes((first,)) + enc_len(len(body)) + body


# -------------------------------------------------------------------- decoding

def split(buf):
    """Frame a stream.  -> (list of whole-packet bytes, unconsumed rest, err)
    err is a Malformed if the stream cannot be framed any further."""
    out = []
    pos = 0
    n = len(buf)
    while pos < n:
        if pos + 1 >= n:
            break
        try:
            r = dec_len(buf, pos + 1)
        except Malformed as e:
            return out, bytes(buf[pos:]), e
        if r is None:
            break
        length, used = r
        end = pos + 1 + used + length
        if end > n:
            break
        out.append(bytes(buf[pos:end]))
        pos = end
    return out, bytes(buf[pos:]), None


def decode(data, level=4):
    """Strictly decode exactly one whole packet."""
    data = bytes(data)
    if len(data) < 2:
        raise Malformed("shorter than a fixed header")
    first = data[0]
    code, flags = first >> 4, first & 0x0F
    if code not in TYPES:
        raise Malformed("reserved packet type %d" % code)
    t = TYPES[code]
    r = dec_len(data, 1)
    if r is None:
        raise Malformed("incomplete remaining length")
    length, used = r
    if len(data) != 1 + used + length:
        raise Malformed("remaining length %d does not match %d bytes that follow"
                        % (length, len(data) - 1 - used))
    pedantic = []
    if enc_len(length) != data[1:1 + used]:
        pedantic.append("non-minimal remaining length")
    rd = _R(data[1 + used:])
    pkt = {"t": t}
    # ---- flags nibble
    if t == "PUBLISH":
        pkt["dup"] = bool(flags & 0x08)
        pkt["qos"] = (flags >> 1) & 3
        pkt["retain"] = bool(flags & 0x01)
        if pkt["qos"] == 3:
            raise Malformed("PUBLISH with QoS 3")
        if pkt["qos"] == 0 and pkt["dup"]:
            pedantic.append("DUP set at QoS 0")
    elif t in ("PUBREL", "SUBSCRIBE", "UNSUBSCRIBE"):
        pkt["dup"] = bool(flags & 0x08)
        if (flags & 0x07) != 0x02:
            pedantic.append("%s flags %#x" % (t, flags))
        if pkt["dup"] and level != 3:
            pedantic.append("%s flags %#x under 3.1.1" % (t, flags))
    else:
        if flags:
            pedantic.append("%s reserved flags %#x" % (t, flags))
    # ---- bodies
    if t == "CONNECT":
        name = rd.string("protocol name")
        lvl = rd.u8("protocol level")
        if PROTO.get(lvl) != name:
            raise Malformed("protocol name/level %r/%r" % (name, lvl))
        pkt["level"] = lvl
        cf = rd.u8("connect flags")
        if cf & 0x01:
            pedantic.append("CONNECT reserved flag")
        pkt["clean"] = bool(cf & 0x02)
        will = bool(cf & 0x04)
        if not will and (cf & 0x38):
            pedantic.append("will QoS/retain without will flag")
        if ((cf >> 3) & 3) == 3:
            raise Malformed("will QoS 3")
        if (cf & 0x40) and not (cf & 0x80) and lvl == 4:
            pedantic.append("password without user name")
        pkt["keepalive"] = rd.u16("keepalive")
        pkt["clientId"] = rd.string("client id")
        pkt["willTopic"] = pkt["willMessage"] = None
        pkt["willQoS"] = pkt["willRetain"] = None
        if will:
            pkt["willQoS"] = (cf >> 3) & 3
            pkt["willRetain"] = bool(cf & 0x20)
            pkt["willTopic"] = rd.string("will topic")
            pkt["willMessage"] = rd.raw(rd.u16("will message length"), "will message")
        pkt["username"] = rd.string("user name") if cf & 0x80 else None
        pkt["password"] = rd.raw(rd.u16("password length"), "password") if cf & 0x40 else None
        if rd.left():
            raise Malformed("%d surplus bytes after CONNECT payload" % rd.left())
    elif t == "CONNACK":
        f = rd.u8("connack flags")
        pkt["rc"] = rd.u8("return code")
        pkt["session"] = bool(f & 1)
        if f & 0xFE:
            pedantic.append("CONNACK reserved flags")
        if rd.left():
            pedantic.append("surplus bytes")
    elif t == "PUBLISH":
        pkt["topic"] = rd.string("topic")
        pkt["id"] = rd.u16("packet identifier") if pkt["qos"] else None
        pkt["payload"] = rd.rest()
        if pkt["qos"] and pkt["id"] == 0:
            pedantic.append("identifier 0")
        if "#" in pkt["topic"] or "+" in pkt["topic"] or "\x00" in pkt["topic"]:
            pedantic.append("wildcard or NUL in topic name")
    elif t in ("PUBACK", "PUBREC", "PUBREL", "PUBCOMP", "UNSUBACK"):
        pkt["id"] = rd.u16("packet identifier")
        if pkt["id"] == 0:
            pedantic.append("identifier 0")
        if rd.left():
            pedantic.append("surplus bytes")
    elif t == "SUBSCRIBE":
        pkt["id"] = rd.u16("packet identifier")
        if pkt["id"] == 0:
            pedantic.append("identifier 0")
        topics = []
        while rd.left():
            name = rd.string("topic filter")
            q = rd.u8("requested QoS")
            if q > 2:
                raise Malformed("requested QoS %d" % q)
            topics.append((name, q))
        if not topics:
            raise Malformed("SUBSCRIBE without topic filter")
        pkt["topics"] = topics
    elif t == "SUBACK":
        pkt["id"] = rd.u16("packet identifier")
        pkt["codes"] = list(rd.rest())
        if pkt["id"] == 0:
            pedantic.append("identifier 0")
        if not pkt["codes"]:
            pedantic.append("SUBACK without return codes")
        if any(c not in (0, 1, 2, 0x80) for c in pkt["codes"]):
            pedantic.append("reserved SUBACK return code")
    elif t == "UNSUBSCRIBE":
        pkt["id"] = rd.u16("packet identifier")
        if pkt["id"] == 0:
            pedantic.append("identifier 0")
        topics = []
        while rd.left():
            topics.append(rd.string("topic filter"))
        if not topics:
            raise Malformed("UNSUBSCRIBE without topic filter")
        pkt["topics"] = topics
    else:  # PINGREQ PINGRESP DISCONNECT
        if rd.left():
            pedantic.append("surplus bytes")
    if pedantic:
        e = Malformed("; ".join(pedantic), "pedantic")
        e.pkt = pkt
        raise e
    return pkt


def decode_lenient(data, level=4):
    """-> (pkt or None, Malformed or None).  Pedantic problems still yield pkt."""
    try:
        return decode(data, level), None
    except Malformed as e:
        return getattr(e, "pkt", None), e


# ------------------------------------------------ self-test against the OASIS text

def selftest():
    # table 2.4: remaining-length boundaries
    tbl = [(0, b"\x00"), (127, b"\x7f"), (128, b"\x80\x01"), (16383, b"\xff\x7f"),
           (16384, b"\x80\x80\x01"), (2097151, b"\xff\xff\x7f"),
           (2097152, b"\x80\x80\x80\x01"), (268435455, b"\xff\xff\xff\x7f")]
    for n, b in tbl:
        assert enc_len(n) == b, (n, enc_len(n))
        assert dec_len(b) == (n, len(b))
    # 1.5.3 / figure 3.2: protocol name
    assert enc_str("MQTT") == b"\x00\x04MQTT"
    assert enc_str("A\U0002A6D4") == b"\x00\x05A\xf0\xaa\x9b\x94"      # 1.5.3.1 example
    # 3.1: CONNECT variable header example (clean, will qos1, user+pass... figure 3.4-3.6)
    c = encode({"t": "CONNECT", "clean": True, "keepalive": 10, "clientId": "c"})
    assert c == b"\x10\x0d\x00\x04MQTT\x04\x02\x00\x0a\x00\x01c", c
    c31 = encode({"t": "CONNECT", "clean": True, "keepalive": 10, "clientId": "c"}, 3)
    assert c31 == b"\x10\x0f\x00\x06MQIsdp\x03\x02\x00\x0a\x00\x01c", c31
    # 3.3: PUBLISH "a/b" id 10 (figure 3.11)
    p = encode({"t": "PUBLISH", "qos": 1, "topic": "a/b", "id": 10, "payload": b""})
    assert p == b"\x32\x07\x00\x03a/b\x00\x0a", p
    # 3.8: SUBSCRIBE a/b qos1, c/d qos2 id 10 (figures 3.21-3.23)
    s = encode({"t": "SUBSCRIBE", "id": 10, "topics": [("a/b", 1), ("c/d", 2)]})
    assert s == b"\x82\x0e\x00\x0a\x00\x03a/b\x01\x00\x03c/d\x02", s
    # 3.10: UNSUBSCRIBE
    u = encode({"t": "UNSUBSCRIBE", "id": 10, "topics": ["a/b", "c/d"]})
    assert u == b"\xa2\x0c\x00\x0a\x00\x03a/b\x00\x03c/d", u
    assert encode({"t": "PUBREL", "id": 2}) == b"\x62\x02\x00\x02"
    assert encode({"t": "PINGREQ"}) == b"\xc0\x00"
    assert encode({"t": "DISCONNECT"}) == b"\xe0\x00"
    assert encode({"t": "CONNACK", "session": True, "rc": 0}) == b"\x20\x02\x01\x00"
    for raw in (c, p, s, u):
        d = decode(raw)
        assert encode(d) == raw
    assert decode(c31, 3)["level"] == 3
    for bad in (b"\x30\x03\x00\x05A", b"\x36\x02\x00\x00", b"\x40\x01\x00", b"\x00\x00",
                b"\xf0\x00", b"\x30\x04\x00\x02\xc3\x28"):
        try:
            decode(bad)
        except Malformed as e:
            assert e.tier == "structural", (bad, e.reason)
        else:
            raise AssertionError("accepted %r" % bad)
    return True


if __name__ == "__main__":
    selftest()
    print("refcodec selftest ok")
