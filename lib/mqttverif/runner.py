"""Sharded execution of a check, merging, verdict, evidence, replay files.

Verdicts are three-valued:
  exit 0  held on everything observed (listed KNOWN-FINDING lines may be printed)
  exit 1  VIOLATION property=<id> replay=<path>   (one line per distinct unlisted signature)
  exit 2  INCONCLUSIVE property=<id> reason=...   (the deciding monitor was not reached, a shard died
          or hit its watchdog)
"""
import collections
import json
import os
import subprocess
import sys
import time

VERIF = os.path.dirname(os.path.dirname(os.path.dirname(os.path.abspath(__file__))))
WORK = os.environ.get("VERIF_WORK_DIR") or os.path.join(VERIF, ".work")
EVIDENCE = os.environ.get("VERIF_EVIDENCE_DIR") or os.path.join(VERIF, "evidence")
REPLAYS = os.environ.get("VERIF_REPLAY_DIR") or os.path.join(VERIF, "replays")
NSHARDS = int(os.environ.get("VERIF_SHARDS", "16"))


def load_findings():
    # (the override exists for selftest/known_findings_selftest.py only)
    p = os.environ.get("VERIF_KNOWN_FINDINGS") or os.path.join(VERIF, "known_findings.json")
    try:
        with open(p) as f:
            return json.load(f)
    except Exception:
        return {"open": [], "fixed": []}


def match_open(findings, prop, sig):
    for f in findings.get("open", []):
        if f["property"] == prop and (sig == f["signature"] or
                                      (f["signature"].endswith("*") and sig.startswith(f["signature"][:-1]))):
            return f
    return None


# ----------------------------------------------------------------------- shard side

def shard_main(argv):
    prop, tier, seed, shard, nshards, out = argv[0], argv[1], int(argv[2]), int(argv[3]), int(argv[4]), argv[5]
    from . import plans, cases
    t0 = time.time()
    plan = plans.get(prop)
    monitor = plan.monitor
    agg = {"evals": 0, "stats": collections.Counter(), "keys": set(), "viol": {}, "samples": {},
           "families": collections.Counter(), "errors": []}
    budget = plan.budget(tier)
    deadline = t0 + budget
    n = 0
    for idx, case in enumerate(plan.cases(tier, seed)):
        if idx % nshards != shard:
            continue
        if time.time() > deadline:
            agg["errors"].append("watchdog after %d cases" % n)
            break
        try:
            r = case.run(monitor)
        except Exception as e:       # a crash of the rig itself is never a verdict
            import traceback
            agg["errors"].append("rig error in %s: %s" % (case.family, traceback.format_exc()[-1500:]))
            break
        n += 1
        agg["evals"] += r.evals
        agg["families"][case.family] += r.evals
        for k, v in r.stats.items():
            agg["stats"][k] += v
        agg["keys"].update(r.keys)
        if r.sample is not None and case.family not in agg["samples"]:
            agg["samples"][case.family] = r.sample
        for sig, msg, step in r.violations:
            if sig not in agg["viol"]:
                agg["viol"][sig] = {"sig": sig, "msg": msg, "step": step, "replay": r.replay, "count": 0}
            agg["viol"][sig]["count"] += 1
    res = {"evals": agg["evals"], "stats": dict(agg["stats"]), "keys": sorted(agg["keys"]),
           "viol": list(agg["viol"].values()), "samples": agg["samples"],
           "families": dict(agg["families"]), "errors": agg["errors"], "cases": n,
           "wall": time.time() - t0}
    with open(out, "w") as f:
        json.dump(cases.jsonable(res), f)
    return 0


# ----------------------------------------------------------------------- parent side

def run_check(prop, tier, seed):
    from . import plans, cases
    plan = plans.get(prop)
    t0 = time.time()
    os.makedirs(WORK, exist_ok=True)
    os.makedirs(EVIDENCE, exist_ok=True)
    nshards = min(NSHARDS, plan.max_shards(tier))
    procs = []
    env = dict(os.environ)
    env["PYTHONHASHSEED"] = "0"
    outs = []
    for s in range(nshards):
        out = os.path.join(WORK, "%s-%s-%d-%d.json" % (prop, tier, seed, s))
        if os.path.exists(out):
            os.unlink(out)
        outs.append(out)
        cmd = [sys.executable, "-m", "mqttverif.runner", "--shard", prop, tier, str(seed), str(s), str(nshards), out]
        procs.append(subprocess.Popen(cmd, env=env, stdout=subprocess.PIPE, stderr=subprocess.STDOUT))
    watchdog = plan.budget(tier) * 1.5 + 60
    errors = []
    for s, p in enumerate(procs):
        try:
            o, _ = p.communicate(timeout=max(5, watchdog - (time.time() - t0)))
            if p.returncode != 0:
                errors.append("shard %d exited %s: %s" % (s, p.returncode, o.decode("utf-8", "replace")[-800:]))
        except subprocess.TimeoutExpired:
            p.kill()
            errors.append("shard %d hit the wall-clock watchdog" % s)
    merged = {"evals": 0, "stats": collections.Counter(), "keys": set(), "viol": {}, "samples": {},
              "families": collections.Counter(), "cases": 0}
    for out in outs:
        if not os.path.exists(out):
            continue
        with open(out) as f:
            r = cases.unjson(json.load(f))
        os.unlink(out)
        merged["evals"] += r["evals"]
        merged["cases"] += r["cases"]
        merged["stats"].update(r["stats"])
        merged["keys"].update(r["keys"])
        merged["families"].update(r["families"])
        errors.extend(r["errors"])
        for k, v in r["samples"].items():
            merged["samples"].setdefault(k, v)
        for v in r["viol"]:
            cur = merged["viol"].get(v["sig"])
            if cur is None:
                merged["viol"][v["sig"]] = v
            else:
                cur["count"] += v["count"]
    findings = load_findings()
    known, unknown = [], []
    for sig, v in sorted(merged["viol"].items()):
        f = match_open(findings, prop, sig)
        (known if f else unknown).append((v, f))
    lines = []
    for v, f in known:
        lines.append("KNOWN-FINDING: property=%s %s [%s] (seen %d times)" % (prop, f["what"], v["sig"], v["count"]))
    rc = 0
    replays = []
    if unknown:
        rc = 1
        os.makedirs(REPLAYS, exist_ok=True)
        for v, _ in unknown:
            slug = "".join(ch if ch.isalnum() else "-" for ch in v["sig"])[:80]
            path = os.path.join(REPLAYS, "%s-%s-seed%d.json" % (prop, slug, seed))
            rep = v["replay"] or {}
            rep = dict(rep)
            rep.update({"property": prop, "signature": v["sig"], "message": v["msg"], "step": v["step"],
                        "tier": tier, "seed": seed})
            try:
                if not os.environ.get("VERIF_NO_SHRINK"):
                    rep = plan.shrink(rep, v["sig"])
            except Exception as e:
                rep["shrink_error"] = repr(e)
            with open(path, "w") as f:
                json.dump(cases.jsonable(rep), f, indent=1)
            replays.append(path)
            lines.append("VIOLATION property=%s replay=%s" % (prop, path))
            lines.append("  signature=%s count=%d: %s" % (v["sig"], v["count"], v["msg"]))
    deciding = merged["stats"].get("deciding", 0)
    inconclusive = None
    if rc == 0:
        if errors:
            inconclusive = "; ".join(errors)[:600]
        elif deciding < plan.min_deciding(tier):
            inconclusive = "only %d deciding events observed (need %d)" % (deciding, plan.min_deciding(tier))
        else:
            for name, need in plan.required_counters(tier).items():
                if merged["stats"].get(name, 0) < need:
                    inconclusive = "deciding counter %s=%d < %d: that part of the monitor was not reached" % (
                        name, merged["stats"].get(name, 0), need)
                    break
        if inconclusive:
            rc = 2
            lines.append("INCONCLUSIVE property=%s reason=%s" % (prop, inconclusive))
    wall = time.time() - t0
    samples = list(merged["samples"].values())[:6]
    ev = {
        "property_id": prop, "tier": tier, "seed": seed, "level": plan.level,
        "coverage": {
            "evaluations": merged["evals"],
            "distinct_nontrivial": len(merged["keys"]) if not plan.counts_distinct_in_stats else merged["stats"].get("distinct_nontrivial", 0),
            "rule": plan.rule,
            "samples": [cases.readable(_trim(s)) for s in samples] or [{"note": "no sample"}],
            "cases_run": merged["cases"],
            "families": dict(merged["families"]),
            "deciding_events": deciding,
            "monitor_counters": {k: v for k, v in sorted(merged["stats"].items())},
            "known_findings_hit": [v["sig"] for v, _ in known],
            "unlisted_violations": [v["sig"] for v, _ in unknown],
            "shards": nshards,
            "exhaustive": bool(plan.exhaustive(tier)),
            "verdict": {0: "held on what was observed", 1: "violated", 2: "inconclusive"}[rc],
        },
        "assumptions": plan.assumptions,
        "wall_s": round(wall, 2),
        "violations": len(unknown),
    }
    if plan.exhaustive(tier):
        ev["coverage"]["exhaustive_domains"] = plan.exhaustive(tier)
    with open(os.path.join(EVIDENCE, "%s.json" % prop), "w") as f:
        json.dump(ev, f, indent=1, sort_keys=True)
    for ln in lines:
        print(ln)
    print("%s %s seed=%d: %d cases, %d evaluations, %d distinct non-trivial, %d deciding events, %.1fs -> %s"
          % (prop, tier, seed, merged["cases"], merged["evals"], ev["coverage"]["distinct_nontrivial"], deciding, wall,
             ev["coverage"]["verdict"]))
    return rc


def _trim(s, limit=60):
    if isinstance(s, dict) and "steps" in s and len(s["steps"]) > limit:
        s = dict(s)
        s["steps"] = list(s["steps"][:limit]) + [("...", len(s["steps"]) - limit, "more steps")]
    return s


def replay(prop, path):
    from . import plans, cases
    plan = plans.get(prop)
    with open(path) as f:
        d = cases.unjson(json.load(f))
    case = plan.case_from_replay(d)
    r = case.run(plan.monitor)
    for sig, msg, step in r.violations:
        print("  %s step=%s: %s" % (sig, step, msg))
    findings = load_findings()
    bad = [v for v in r.violations if not match_open(findings, prop, v[0])]
    if bad:
        print("VIOLATION property=%s replay=%s" % (prop, path))
        return 1
    print("replay of %s: no unlisted violation" % path)
    return 0


if __name__ == "__main__":
    if len(sys.argv) > 1 and sys.argv[1] == "--shard":
        sys.exit(shard_main(sys.argv[2:]))
