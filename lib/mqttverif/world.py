"""The world a history runs in: factory, protocols, transports, shadow broker,
step executor and the boundary trace every monitor reads.

Everything recorded here is observed at the library's boundary: API calls and
what they return, Deferred outcomes, application callbacks, bytes handed to the
transport, close/abort requests, the reactor's delayed-call table, exceptions
escaping entry points.  The only internals touched are `protocol.state`/`IDLE`
(read, as the repository's own tests do) and `factory.id` (optional placement
for the identifier-wrap workload, verified after the fact).
"""
import collections

from . import env as _env
from . import refcodec as rc

ENV = _env.install()

from twisted.internet import defer, error          # noqa: E402
from twisted.internet.address import IPv4Address   # noqa: E402
from twisted.python import failure                 # noqa: E402

import mqtt                                         # noqa: E402
from mqtt.client.factory import MQTTFactory         # noqa: E402

V = {3: mqtt.v31, 4: mqtt.v311}
PROFILES = {"pub": MQTTFactory.PUBLISHER, "sub": MQTTFactory.SUBSCRIBER,
            "pubsub": MQTTFactory.PUBLISHER | MQTTFactory.SUBSCRIBER}
ADDRS = [IPv4Address("TCP", "10.0.0.1", 1883), IPv4Address("TCP", "10.0.0.2", 1883)]

LOSS_REASONS = {
    "done": lambda: error.ConnectionDone("peer closed"),
    "lost": lambda: error.ConnectionLost("network failure"),
    "reset": lambda: error.ConnectionLost("Connection reset by peer"),
}


class HarnessCall(object):
    """A delayed call owned by the rig (asynchronous loss notification)."""

    def __init__(self, fn, *a):
        self.fn, self.a = fn, a

    def __call__(self):
        return self.fn(*self.a)


class Transport(object):
    """Both transport models.  model 'sync': semantics of
    StringTransportWithDisconnection (loss reported inside loseConnection()).
    model 'tcp': semantics of twisted.internet.tcp.Connection — after
    loseConnection() reading stops, writes are still accepted and flushed, the
    loss is reported later; after abortConnection() nothing is flushed and the
    loss is reported via callLater(0)."""

    disconnecting = False

    def __init__(self, world, conn, model, close_delay):
        self.w, self.c, self.model, self.close_delay = world, conn, model, close_delay
        self._pending = None

    # ITransport
    def write(self, data):
        self.w._on_write(self.c, bytes(data))

    def writeSequence(self, seq):
        for d in seq:
            self.write(d)

    # the rest of what a TCP transport offers (harmless no-ops: an implementation may call them)
    @property
    def connected(self):
        return 0 if self.c.phase == "lost" else 1

    def setTcpNoDelay(self, enabled):
        self._nodelay = bool(enabled)

    def getTcpNoDelay(self):
        return getattr(self, "_nodelay", False)

    def setTcpKeepAlive(self, enabled):
        self._keepalive = bool(enabled)

    def getTcpKeepAlive(self):
        return getattr(self, "_keepalive", False)

    def registerProducer(self, producer, streaming):
        self._producer = producer

    def unregisterProducer(self):
        self._producer = None

    def pauseProducing(self):
        pass

    def resumeProducing(self):
        pass

    def stopProducing(self):
        self.loseConnection()

    def getPeer(self):
        return ADDRS[self.c.a]

    def getHost(self):
        return IPv4Address("TCP", "10.0.0.100", 40000 + self.c.idx)

    def loseConnection(self):
        c = self.c
        self.w.ev("tcall", conn=c.idx, what="lose", phase=c.phase)
        if c.phase != "open":
            return
        self.disconnecting = True
        if self.model == "sync":
            self.w._deliver_loss(c, failure.Failure(error.ConnectionDone("Bye.")))
        else:
            c.phase = "closing"
            self._pending = ENV.reactor.callLater(
                self.close_delay, HarnessCall(self.w._deliver_loss, c,
                                              failure.Failure(error.ConnectionDone("closed cleanly"))))

    def abortConnection(self):
        c = self.c
        self.w.ev("tcall", conn=c.idx, what="abort", phase=c.phase)
        if c.phase in ("lost", "losing", "aborting"):
            return
        self.disconnecting = True
        if self.model == "sync":
            self.w._deliver_loss(c, failure.Failure(error.ConnectionDone("Bye.")))
        else:
            if self._pending is not None and self._pending.active():
                self._pending.cancel()
            c.phase = "aborting"
            self._pending = ENV.reactor.callLater(
                0, HarnessCall(self.w._deliver_loss, c, failure.Failure(error.ConnectionAborted())))


class Conn(object):
    def __init__(self, idx, a):
        self.idx, self.a = idx, a
        self.proto = None
        self.tr = None
        self.phase = "open"          # open | closing | aborting | losing | lost
        self.connect_seen = False    # a CONNECT was written
        self.connect_pending = False # ... and not yet answered by a CONNACK
        self.clean = None
        self.level = 4
        self.keepalive = None
        self.connack_ok = False
        self.out_buf = bytearray()
        self.broken_stream = False
        self.window = 1              # last accepted setWindowSize on this protocol
        self.timeout = 4             # last accepted setTimeout
        self.bandwith = (10000, 2)


class Shadow(object):
    """Broker-side view of one address, built only from decoded writes and
    from what the rig itself sent."""

    def __init__(self):
        self.pub = collections.OrderedDict()     # id -> dict(qos,state,conn,token)
        self.sub = collections.OrderedDict()     # id -> dict(conn,n)
        self.unsub = collections.OrderedDict()
        self.done = {"PUBACK": [], "PUBREC": [], "PUBCOMP": [], "SUBACK": [], "UNSUBACK": []}
        self.seen_ids = set()
        self.inq2 = collections.OrderedDict()    # broker->client QoS2: id -> state
        self.inq2_pkt = {}
        self.in_next = 0
        self.in_last = None
        self.ping_out = 0

    def clear_session(self):
        self.pub.clear()
        self.sub.clear()
        self.unsub.clear()
        self.inq2.clear()


class Cfg(object):
    """World configuration (all schedule/config dimensions that are not steps)."""

    def __init__(self, profile="pubsub", model="sync", close_delay=0.0, jitter="const",
                 jitter_value=0.5, seed=0, ondisc=True, onconn=False, onpub=True,
                 re_pub_on_fail=False, re_pub_on_connmade=False, re_echo=False,
                 re_connect_on_disc=False, late=0.0, re_disc_on=None, re_on_refuse=None, re_chain=False):
        self.__dict__.update(locals())
        del self.__dict__["self"]

    def asdict(self):
        return dict(self.__dict__)


TOKEN_LEN = 8
STATEMENT_CLASSES = ("MQTTWindowError", "MQTTStateError", "MQTTTimeoutError", "MQTTSessionCleared")


def _ename(e):
    """Name under which an exception is recorded: the class the statements name if it is an instance of one
    (a subclass of MQTTStateError is an MQTTStateError), otherwise its own class name."""
    names = [c.__name__ for c in type(e).__mro__]
    for n in names:
        if n in STATEMENT_CLASSES:
            return n
    return names[0]

SHARED_FILTERS = ("shared/filter/used/again/and/again/in/every/list/+/one", "shared/filter/used/again/and/again/in/every/list/#")


def token_of(data):
    """Token carried in a payload / topic: b'~%06d~'."""
    if isinstance(data, str):
        data = data.encode("utf-8", "replace")
    i = data.find(b"~")
    if i < 0 or len(data) < i + TOKEN_LEN or data[i + 7:i + 8] != b"~":
        return None
    try:
        return int(data[i + 1:i + 7])
    except ValueError:
        return None


class World(object):

    def __init__(self, cfg):
        self.cfg = cfg
        r = ENV.reactor
        r.reset()
        r.late = cfg.late
        ENV.jitter.reset(cfg.jitter, cfg.seed, cfg.jitter_value)
        del ENV.unhandled[:]
        self.trace = []
        self.step_no = -1
        self.step_desc = None
        self.cause = "setup"
        self.factory = MQTTFactory(PROFILES[cfg.profile])
        self.conns = []
        self.live = {}                  # a -> Conn (built, loss not yet reported)
        self.cur = {}                   # a -> most recently built Conn (live or lost)
        self.shadow = {0: Shadow(), 1: Shadow()}
        # the broker's own identifiers start at different places (not only small numbers)
        for a in (0, 1):
            self.shadow[a].in_next = (0, 250, 32760, 65530)[(cfg.seed + a) % 4]
        self.next_token = {0: 1, 1: 500001}   # per address, so that a history and its one-address projection agree
        self.next_did = 1
        self.reqs = {}                  # did -> request record
        self.depth = 0                  # re-entrancy depth of application callbacks
        self.chunking = "whole"
        self.rng = None
        r.sink = self._reactor_sink
        ENV.fire_sink = self._fire_attempt
        self.ended = False
        self.finishing = False
        self.chain_budget = 8
        self.last_raised = None
        self.in_api = None
        self.created_mark = 0
        self._act_write = None
        self.disc_done = False

    # ------------------------------------------------------------- trace

    def ev(self, _k, **kw):
        kw["k"] = _k
        kw["i"] = len(self.trace)
        kw["step"] = self.step_no
        kw["t"] = ENV.reactor.seconds()
        kw["cause"] = self.cause
        self.trace.append(kw)
        return kw

    def _activation(self):
        """A new activation (a step, or a timer firing) begins: delayed calls created from now
        on can no longer belong to an earlier write, nor earlier ones to a later write."""
        cr = ENV.reactor.created
        if self._act_write is not None:
            self._act_write["after"].extend(d.seq for d in cr[self.created_mark:]
                                            if not isinstance(getattr(d, "func", None), HarnessCall))
        self._act_write = None
        self.created_mark = len(cr)

    def _reactor_sink(self, kind, **kw):
        if kind == "timer":
            self._activation()
            c = kw["call"]
            if isinstance(c.func, HarnessCall):
                self.ev("htimer", due=kw["due"])
            else:
                self.ev("timer", name=_fname(c.func), due=kw["due"], seq=getattr(c, "seq", None))
        elif kind == "exc":
            e = kw["exc"]
            self.ev("exc", where=kw["where"], etype=type(e).__name__, msg=str(e)[:200],
                    name=_fname(kw["call"].func) if "call" in kw else None)

    def _fire_attempt(self, did, kind, already):
        self.ev("fire_attempt", did=did, how=kind, already=bool(already))

    # ------------------------------------------------------------- transport side

    def _on_write(self, c, data):
        cr = ENV.reactor.created
        new = [d.seq for d in cr[self.created_mark:] if not isinstance(getattr(d, "func", None), HarnessCall)]
        self.created_mark = len(cr)
        if self._act_write is not None:
            self._act_write["after"].extend(new)       # created after the previous write of this activation
        before, after = list(new), []
        e = self.ev("write", conn=c.idx, a=c.a, data=data, phase=c.phase, before=before, after=after,
                    connected=c.connect_seen, ndraws=len(ENV.jitter.draws),
                    timeout=c.timeout, window=c.window)
        self._act_write = e
        c.out_buf.extend(data)
        if c.broken_stream:
            return
        pkts, rest, err = rc.split(c.out_buf)
        c.out_buf[:] = rest
        if err is not None:
            c.broken_stream = True
            self.ev("pkt", conn=c.idx, a=c.a, raw=bytes(rest), pkt=None, bad=err.reason,
                    tier="structural", phase=c.phase, w=e["i"])
        for raw in pkts:
            if raw[0] >> 4 == 1:
                try:      # the CONNECT tells which protocol level the stream speaks
                    c.level = rc.decode(raw, 4).get("level", 4)
                except rc.Malformed as ex:
                    p = getattr(ex, "pkt", None)
                    if p is not None and "level" in p:
                        c.level = p["level"]
                    elif b"MQIsdp" in raw[:12]:
                        c.level = 3
            pkt, bad = rc.decode_lenient(raw, c.level)
            self.ev("pkt", conn=c.idx, a=c.a, raw=raw, pkt=pkt,
                    bad=bad.reason if bad else None, tier=bad.tier if bad else None,
                    phase=c.phase, w=e["i"], level=c.level, timeout=c.timeout, window=c.window,
                    before=before, after=after,
                    draw=(ENV.jitter.draws[-1] if ENV.jitter.draws else None),
                    ndraws=len(ENV.jitter.draws), api=self.in_api)
            if pkt is not None:
                self._shadow_out(c, pkt)

    def _shadow_out(self, c, p):
        sh = self.shadow[c.a]
        t = p["t"]
        if t == "CONNECT":
            c.connect_seen = True
            c.connect_pending = True      # the broker owes this CONNECT one CONNACK
            c.clean = p["clean"]
            c.keepalive = p["keepalive"]
            if p["clean"]:
                sh.clear_session()
        elif t == "PUBLISH" and p["qos"]:
            sh.seen_ids.add(p["id"])
            cur = sh.pub.get(p["id"])
            tok = token_of(p["payload"])
            if cur is None or cur["token"] != tok or cur["state"] == "done":
                sh.pub[p["id"]] = {"qos": p["qos"], "state": "sent", "conn": c.idx, "token": tok}
                sh.pub.move_to_end(p["id"])
            else:
                cur["conn"] = c.idx
                if cur["state"] == "rec":
                    # the client repeats a PUBLISH we answered with PUBREC: that PUBREC never
                    # reached it (or was ignored); a broker answers the repeat again
                    cur["state"] = "sent"
        elif t == "PUBREL":
            cur = sh.pub.get(p["id"])
            if cur is not None:
                cur["state"] = "rel"
                cur["conn"] = c.idx
            else:
                sh.pub[p["id"]] = {"qos": 2, "state": "rel", "conn": c.idx, "token": None}
        elif t == "SUBSCRIBE":
            sh.seen_ids.add(p["id"])
            sh.sub[p["id"]] = {"conn": c.idx, "n": len(p["topics"])}
        elif t == "UNSUBSCRIBE":
            sh.seen_ids.add(p["id"])
            sh.unsub[p["id"]] = {"conn": c.idx}
        elif t == "PUBREC":
            if p["id"] in sh.inq2:
                sh.inq2[p["id"]] = "rec"
        elif t == "PUBCOMP":
            sh.inq2.pop(p["id"], None)
        elif t == "PINGREQ":
            sh.ping_out += 1

    def _deliver_loss(self, c, reason):
        if c.phase in ("lost", "losing"):
            return
        c.phase = "losing"
        if self.live.get(c.a) is c:
            del self.live[c.a]
        self.ev("lost", conn=c.idx, a=c.a, reason=type(reason.value).__name__, rid=id(reason), clean=c.clean)
        if c.clean:
            self.shadow[c.a].clear_session()     # a clean session ends with its network connection
        c.loss_reason = reason
        try:
            c.proto.connectionLost(reason)
        except Exception as e:
            self.ev("exc", where="connectionLost", etype=type(e).__name__, msg=str(e)[:200], conn=c.idx)
        c.phase = "lost"
        self.ev("lost_done", conn=c.idx, a=c.a)

    # ------------------------------------------------------------- application side

    def _install_handlers(self, c):
        p, cfg = c.proto, self.cfg

        def on_publish(topic, payload, qos, dup, retain, msgId):
            self.ev("cb", name="onPublish", conn=c.idx, a=c.a,
                    args=(topic, bytes(payload) if isinstance(payload, (bytes, bytearray)) else payload,
                          qos, dup, retain, msgId),
                    ptype=type(payload).__name__, ttype=type(topic).__name__)
            if cfg.re_disc_on == "onpublish":
                self._re_disconnect(c, "onpublish")
            if cfg.re_echo and self.depth == 0:
                self.depth += 1
                try:
                    self._api_publish(c, 1, False, 3, "echo")
                finally:
                    self.depth -= 1

        def on_disc(reason):
            self.ev("cb", name="onDisconnection", conn=c.idx, a=c.a, rid=id(reason),
                    reason=type(getattr(reason, "value", reason)).__name__,
                    same=reason is getattr(c, "loss_reason", None))
            if cfg.re_connect_on_disc and self.depth == 0 and c.a not in self.live and not self.ended:
                self.depth += 1
                try:
                    nc = self._build(c.a)
                    self._api_connect(nc, c.clean if c.clean is not None else True, 0, 4, {})
                finally:
                    self.depth -= 1

        def on_connmade():
            self.ev("cb", name="onMqttConnectionMade", conn=c.idx, a=c.a)
            if cfg.re_disc_on == "connmade":
                self._re_disconnect(c, "connmade")
            if cfg.re_pub_on_connmade and self.depth == 0:
                self.depth += 1
                try:
                    self._api_publish(c, 1, False, 3, "connmade")
                finally:
                    self.depth -= 1

        if cfg.onpub:
            p.onPublish = on_publish
        c.has_ondisc = bool(cfg.ondisc) and (cfg.ondisc != "alt" or c.idx % 2 == 0)     # "alt": only every other protocol gets a handler
        if c.has_ondisc:
            p.onDisconnection = on_disc
        if cfg.onconn or cfg.re_pub_on_connmade or cfg.re_disc_on == "connmade":
            p.onMqttConnectionMade = on_connmade

    def _api(self, c, op, fn, args, info):
        """Invoke one API entry point through the trap and record everything."""
        call = self.ev("api", op=op, conn=c.idx, a=c.a, info=info,
                       state=_state_name(c.proto), phase=c.phase, depth=self.depth,
                       timeout=c.timeout, window=c.window)
        self.last_raised = None
        prev_api, self.in_api = self.in_api, call["i"]
        try:
            r = fn(*args[0], **args[1])
        except Exception as e:
            self.last_raised = e
            self.in_api = prev_api
            self.ev("api_ret", op=op, conn=c.idx, call=call["i"], raised=_ename(e), eclass=type(e).__name__,
                    exc_is_value=isinstance(e, ValueError), exc_is_type=isinstance(e, TypeError),
                    msg=str(e)[:120])
            return None
        self.in_api = prev_api
        if isinstance(r, defer.Deferred):
            did = self.next_did
            self.next_did += 1
            r.__dict__["_verif_id"] = did
            msgid = r.__dict__.get("msgId", "<none>")
            req = {"did": did, "op": op, "conn": c.idx, "a": c.a, "info": info, "msgId": msgid,
                   "called_at_return": bool(r.called), "call": call["i"], "step": self.step_no}
            self.reqs[did] = req
            self.ev("api_ret", op=op, conn=c.idx, call=call["i"], did=did, msgId=msgid,
                    called=bool(r.called))

            def rec(res, did=did, c=c, req=req):
                if isinstance(res, failure.Failure):
                    v = res.value
                    self.ev("fire", did=did, ok=False, etype=_ename(v), eclass=type(v).__name__, op=op, conn=c.idx, a=c.a,
                            is_value=isinstance(v, ValueError), is_type=isinstance(v, TypeError),
                            is_reason=(getattr(c, "loss_reason", None) is not None
                                       and v is c.loss_reason.value),
                            msg=str(v)[:120])
                    if (self.cfg.re_on_refuse and op == "connect" and _ename(v) == "MQTTStateError"
                            and self.depth == 0 and not self.ended and info.get("why") != "retry"):
                        # an application that reacts to a refusal from inside the errback
                        self.depth += 1
                        try:
                            if self.cfg.re_on_refuse == "publish":
                                self._api_publish(c, 1, False, 3, "on-refusal")
                            else:
                                kw = {"keepalive": 0, "cleanStart": True, "version": V[4]}
                                self._api(c, "connect", c.proto.connect, (("cid-retry",), kw),
                                          {"clean": True, "keepalive": 0, "level": 4, "clientId": "cid-retry", "extra": {}, "why": "retry"})
                        finally:
                            self.depth -= 1
                    if self.cfg.re_disc_on == "fail" and op == "publish":
                        self._re_disconnect(c, "fail")     # an application that gives up on the first failed publish
                    if (self.cfg.re_pub_on_fail and op == "publish" and self.depth == 0
                            and not self.ended and info.get("why") != "refail"):
                        self.depth += 1
                        try:
                            # the application talks to its current protocol object for that address
                            self._api_publish(self.cur.get(c.a, c), info["qos"] or 1, False, 3, "refail")
                        finally:
                            self.depth -= 1
                else:
                    self.ev("fire", did=did, ok=True, value=_plain(res), op=op, conn=c.idx, a=c.a)
                    where = self.cfg.re_disc_on
                    if ((where == "ack" and op == "publish" and info.get("qos")) or
                            (where == "suback" and op in ("subscribe", "unsubscribe")) or
                            (where == "connected" and op == "connect")):
                        self._re_disconnect(c, where)
                    if (self.cfg.re_chain and self.depth == 0 and not self.ended and not self.finishing
                            and self.chain_budget > 0 and info.get("why") != "chain"):
                        # an application that issues its next request from the callback of the previous one
                        # (subscribe and publish once connected; the next message once the last is acknowledged)
                        self.chain_budget -= 1
                        cur = self.cur.get(c.a, c)
                        self.depth += 1
                        try:
                            if op == "connect":
                                self._api_subscribe(cur, "str", 1, 1)
                                self._api_publish(cur, 1, False, 3, "chain")
                            elif op == "publish" and info.get("qos"):
                                self._api_publish(cur, info["qos"], False, 3, "chain")
                            elif op == "subscribe":
                                self._api_unsubscribe(cur, "str", 1)
                                self._api_subscribe(cur, "list", 2, 0)
                            elif op == "unsubscribe":
                                self._api_publish(cur, 2, False, 3, "chain")
                        finally:
                            self.depth -= 1
                    # an application callback may return whatever it likes; with one Deferred per
                    # request that value never reaches anybody else
                    return "consumed-by-application"
                return None
            r.addBoth(rec)
            return r
        self.ev("api_ret", op=op, conn=c.idx, call=call["i"], ret=_plain(r))
        return r

    def _re_disconnect(self, c, where):
        """An application that disconnects from inside one of its callbacks."""
        if self.depth or self.ended or self.disc_done:
            return
        c = self.cur.get(c.a, c)        # the application talks to its current protocol object
        self.disc_done = True
        self.depth += 1
        try:
            self._api(c, "disconnect", c.proto.disconnect, ((), {}), {"why": "from-" + where})
        finally:
            self.depth -= 1

    def _topic(self, kind, tok):
        base = "t/~%06d~" % tok
        if kind == "same":       # applications publish to the same few topics all the time (the payload carries the token)
            return "shared/topic/that/many/publishes/go/to/again/and/again"
        if kind == "uni":
            return base + "/é€\U0001f600"
        if kind == "long":
            return base + "/" + "x" * 300
        return base

    def _tok(self, a):
        t = self.next_token[a]
        self.next_token[a] = t + 1
        return t

    def _api_publish(self, c, qos, retain, size, why="step", tkind="plain", ptype="bytearray"):
        tok = self._tok(c.a)
        body = b"~%06d~" % tok + b"p" * max(0, size)
        if ptype == "ustr":          # a str payload that is longer in UTF-8 bytes than in characters
            body += "é€\U0001f600".encode("utf-8")
        payload = bytearray(body) if ptype == "bytearray" else body.decode("utf-8")
        topic = self._topic(tkind, tok)
        info = {"token": tok, "qos": qos, "retain": retain, "topic": topic, "payload": body,
                "why": why}
        ret = self._api(c, "publish", c.proto.publish, ((topic, payload), {"qos": qos, "retain": retain}), info)
        if isinstance(payload, bytearray) and tok % 2 == 0:
            # the application re-uses its buffer once publish() has returned: what was published is
            # the content at the time of the call
            payload[:] = b"buffer re-used after publish() returned"
        return ret

    def _api_subscribe(self, c, shape, n, qos, tkind="plain"):
        toks = []
        topics = []
        for k in range(n if shape == "list" else 1):
            tok = self._tok(c.a)
            toks.append(tok)
            # the first filter carries the token; the others are the same few strings in every call, as in real applications
            if tkind == "same":      # the very same filter(s) and QoS as in earlier calls (a re-subscribe after a reconnect); C07 workloads only
                topics.append((SHARED_FILTERS[k % 2], qos))
                continue
            topics.append((self._topic(tkind, tok) + "/s" if k == 0 else SHARED_FILTERS[k % 2], (qos + k) % 3))
        # for the tuple and list shapes the separate qos argument is a decoy: the QoS of each
        # entry is the one inside the tuple (every other call passes a different value there)
        decoy = {"qos": (topics[0][1] + 1 + toks[0] % 2) % 3} if toks[0] % 2 else {}
        if shape == "str":
            args = ((topics[0][0], topics[0][1]), {})
        elif shape == "tuple":
            args = ((topics[0],), decoy)
        else:
            args = ((list(topics),), decoy)
        info = {"tokens": toks, "topics": topics, "shape": shape, "decoy": decoy}
        return self._api(c, "subscribe", c.proto.subscribe, args, info)

    def _api_unsubscribe(self, c, shape, n, tkind="plain"):
        toks, topics = [], []
        for k in range(n if shape == "list" else 1):
            tok = self._tok(c.a)
            toks.append(tok)
            topics.append(self._topic(tkind, tok) + "/u" if k == 0 else SHARED_FILTERS[k % 2])
        args = ((topics[0],), {}) if shape == "str" else ((list(topics),), {})
        info = {"tokens": toks, "topics": topics, "shape": shape}
        return self._api(c, "unsubscribe", c.proto.unsubscribe, args, info)

    def _api_connect(self, c, clean, keepalive, level, extra):
        kw = {"keepalive": keepalive, "cleanStart": clean, "version": V.get(level, level)}
        if not extra and self.cfg.seed:
            # seeded histories also vary the optional CONNECT fields
            variant = (self.cfg.seed // 7 + c.idx) % 4
            extra = ({}, {"willTopic": "will/t", "willMessage": "gone"},
                     {"username": "user", "password": "secret"},
                     {"willTopic": "will/\u00e9", "willMessage": "", "willQoS": 2, "willRetain": True, "username": "u"})[variant]
        kw.update(extra)
        default_cid = "cid-%d" % c.a
        if self.cfg.seed and (self.cfg.seed // 11) % 3 == 0:
            default_cid = "cid-%d-%d" % (c.a, c.idx)        # an application that takes a new client id for every connection
        cid = kw.pop("clientId", default_cid)
        info = {"clean": clean, "keepalive": keepalive, "level": level, "clientId": cid,
                "extra": dict(extra)}
        return self._api(c, "connect", c.proto.connect, ((cid,), kw), info)

    def _build(self, a):
        c = Conn(len(self.conns), a)
        self.conns.append(c)
        c.proto = self.factory.buildProtocol(ADDRS[a])
        c.tr = Transport(self, c, self.cfg.model, self.cfg.close_delay)
        self.live[a] = c
        self.cur[a] = c
        self._install_handlers(c)
        self.ev("build", conn=c.idx, a=a, ondisc=c.has_ondisc)
        c.proto.makeConnection(c.tr)
        return c

    # ------------------------------------------------------------- broker side

    def _feed(self, c, data, pkts, chunks=None):
        """Deliver inbound bytes as the transport would."""
        if c is None or c.phase != "open":
            self.ev("skip", why="not reading")
            return False
        self.ev("in", conn=c.idx, a=c.a, data=bytes(data), pkts=pkts)
        if chunks is None:
            chunks = self._chunks(data, pkts)
        for ch in chunks:
            if c.phase != "open":
                self.ev("undelivered", conn=c.idx, n=len(ch))
                break
            try:
                c.proto.dataReceived(ch)
            except Exception as e:
                self.ev("exc", where="dataReceived", etype=type(e).__name__, msg=str(e)[:200], conn=c.idx)
                # Twisted drops the connection with that failure
                if c.tr._pending is not None and c.tr._pending.active():
                    c.tr._pending.cancel()
                self._deliver_loss(c, failure.Failure(e))
                break
        return True

    def _chunks(self, data, pkts):
        pol = self.chunking
        if pol == "whole" or len(data) < 2:
            return [data]
        if pol == "bytes":
            return [data[i:i + 1] for i in range(len(data))]
        if pol == "half":
            h = len(data) // 2
            return [data[:h], data[h:]]
        if pol == "hdr":
            return [data[:1], data[1:2], data[2:]]
        return [data]

    def _send(self, a, pkt):
        c = self.live.get(a)
        if c is None:
            self.ev("skip", why="no connection")
            return False
        raw = rc.encode(pkt, c.level)
        return self._feed(c, raw, [pkt])

    def _pick(self, ids, pick):
        if not ids:
            return None
        if pick == "old":
            return ids[0]
        if pick == "new":
            return ids[-1]
        if isinstance(pick, int):
            return ids[pick % len(ids)]
        return ids[0]

    def outstanding(self, a, kind, cur_only=True):
        sh = self.shadow[a]
        c = self.live.get(a)
        ci = c.idx if c is not None else -1
        if c is None or not c.connack_ok:
            return []          # a broker acknowledges nothing before its CONNACK
        if kind == "PUBACK":
            return [i for i, v in sh.pub.items() if v["qos"] == 1 and v["state"] == "sent"
                    and (v["conn"] == ci or not cur_only)]
        if kind == "PUBREC":
            return [i for i, v in sh.pub.items() if v["qos"] == 2 and v["state"] == "sent"
                    and (v["conn"] == ci or not cur_only)]
        if kind == "PUBCOMP":
            return [i for i, v in sh.pub.items() if v["state"] == "rel"
                    and (v["conn"] == ci or not cur_only)]
        if kind == "SUBACK":
            return [i for i, v in sh.sub.items() if v["conn"] == ci or not cur_only]
        if kind == "UNSUBACK":
            return [i for i, v in sh.unsub.items() if v["conn"] == ci or not cur_only]
        return []

    def _ack(self, a, kind, pick, codes=None):
        sh = self.shadow[a]
        ids = self.outstanding(a, kind)
        i = self._pick(ids, pick)
        if i is None:
            self.ev("skip", why="nothing to " + kind)
            return False
        pkt = {"t": kind, "id": i}
        n = 1
        if kind == "SUBACK":
            n = sh.sub[i]["n"]
            pkt["codes"] = list(codes) if codes is not None else [0] * n
        ok = self._send(a, pkt)
        if ok:
            if kind == "PUBACK" or kind == "PUBCOMP":
                sh.pub.pop(i, None)
            elif kind == "PUBREC":
                # the broker has the message now; it awaits the PUBREL
                if i in sh.pub and sh.pub[i]["state"] == "sent":
                    sh.pub[i]["state"] = "rec"
            elif kind == "SUBACK":
                sh.sub.pop(i, None)
            elif kind == "UNSUBACK":
                sh.unsub.pop(i, None)
            sh.done[kind].append(i)
        return ok

    def _never_issued(self, a):
        sh = self.shadow[a]
        for cand in (40000, 65535, 1, 7, 12345):
            if cand not in sh.seen_ids and cand not in sh.pub:
                # also not held back / issued but unseen: stay far above the counter
                if cand > getattr(self.factory, "id", 0) + 50 or cand in (65535,):
                    return cand
        return 39999

    # ------------------------------------------------------------- steps

    def run(self, steps, finish=True):
        for s in steps:
            self.step(s)
        if finish:
            self.finish()
        return self.trace

    def step(self, s):
        self.step_no += 1
        self.step_desc = s
        self.cause = _cause_of(s[0])
        self._activation()
        self.ev("step", s=s)
        try:
            getattr(self, "s_" + s[0])(*s[1:])
        finally:
            self.snap()

    def snap(self):
        self._activation()
        calls = []
        hcalls = 0
        for c in ENV.reactor.pending():
            if isinstance(c.func, HarnessCall):
                hcalls += 1
            else:
                calls.append((c.getTime(), _fname(c.func), getattr(c, "seq", None)))
        states = {}
        for a, c in self.cur.items():
            states[a] = (_state_name(c.proto), _is_idle(c.proto), c.phase, c.idx)
        self.ev("snap", calls=calls, hcalls=hcalls, states=states)

    # API steps
    def s_build(self, a):
        if a in self.live:
            return self.ev("skip", why="already live")
        self._build(a)

    def s_reuse(self, a):
        """The application connects the SAME protocol object again after its connection was lost
        (makeConnection with a new transport), instead of asking the factory for a new one.  To the
        monitors it is a new connection of that address.  Only the C14 matrix does this (S175)."""
        old = self.cur.get(a)
        if a in self.live or old is None or old.phase != "lost":
            return self.ev("skip", why="no lost protocol to use again")
        c = Conn(len(self.conns), a)
        self.conns.append(c)
        c.proto = old.proto
        c.window, c.timeout, c.bandwith = old.window, old.timeout, old.bandwith
        c.tr = Transport(self, c, self.cfg.model, self.cfg.close_delay)
        self.live[a] = c
        self.cur[a] = c
        self._install_handlers(c)
        self.ev("build", conn=c.idx, a=a, ondisc=c.has_ondisc, reused=True)
        c.proto.makeConnection(c.tr)

    def s_connect(self, a, clean=True, keepalive=0, level=4, extra=None):
        c = self.live.get(a)
        if c is None:
            return self.ev("skip", why="no protocol")
        self._api_connect(c, clean, keepalive, level, extra or {})

    def s_connect_stale(self, a, clean=True, keepalive=0, level=4):
        """connect() once more on the protocol object whose connection has been lost (it is idle
        again, as far as the library is concerned).  Only the C04 workloads do this."""
        c = self.cur.get(a)
        if c is None or c.phase != "lost":
            return self.ev("skip", why="protocol not lost")
        self._api_connect(c, clean, keepalive, level, {})

    def s_disconnect(self, a):
        c = self.cur.get(a)
        if c is None:
            return self.ev("skip", why="no protocol")
        self._api(c, "disconnect", c.proto.disconnect, ((), {}), {})

    def s_ping(self, a):
        """The application's own ping() (the keepalive loop is not the only source of PINGREQs)."""
        c = self.cur.get(a)
        if c is None:
            return self.ev("skip", why="no protocol")
        self._api(c, "ping", c.proto.ping, ((), {}), {})

    def s_setwin(self, a, n):
        c = self.cur.get(a)
        if c is None:
            return self.ev("skip", why="no protocol")
        self._api(c, "setWindowSize", c.proto.setWindowSize, ((n,), {}), {"n": n})
        if self.last_raised is None:
            c.window = n

    def s_settimeout(self, a, t):
        c = self.cur.get(a)
        if c is None:
            return self.ev("skip", why="no protocol")
        self._api(c, "setTimeout", c.proto.setTimeout, ((t,), {}), {"t": t})
        if self.last_raised is None:
            c.timeout = t

    def s_setbw(self, a, bw, f=2):
        c = self.cur.get(a)
        if c is None:
            return self.ev("skip", why="no protocol")
        self._api(c, "setBandwith", c.proto.setBandwith, ((bw, f), {}), {"bw": bw, "f": f})
        if self.last_raised is None:
            c.bandwith = (bw, f)

    def s_pub(self, a, qos=1, retain=False, size=3, tkind="plain", ptype="bytearray"):
        c = self.cur.get(a)
        if c is None:
            return self.ev("skip", why="no protocol")
        self._api_publish(c, qos, retain, size, "step", tkind, ptype)

    def s_sub(self, a, shape="list", n=1, qos=0, tkind="plain"):
        c = self.cur.get(a)
        if c is None:
            return self.ev("skip", why="no protocol")
        self._api_subscribe(c, shape, n, qos, tkind)

    def s_unsub(self, a, shape="list", n=1, tkind="plain"):
        c = self.cur.get(a)
        if c is None:
            return self.ev("skip", why="no protocol")
        self._api_unsubscribe(c, shape, n, tkind)

    def s_call(self, a, op, args, kw):
        """Raw API call with arbitrary arguments (argument-boundary workloads)."""
        c = self.cur.get(a)
        if c is None:
            return self.ev("skip", why="no protocol")
        self._api(c, op, getattr(c.proto, op), (tuple(args), dict(kw)), {"raw": True, "args": _plain(args), "kw": _plain(kw)})

    # broker steps
    def s_connack(self, a, rc_=0, sp=False):
        c = self.live.get(a)
        was = c is not None and c.connect_pending and c.phase == "open"
        if c is not None and c.phase == "open":
            # this CONNACK answers the CONNECT that is pending now (a CONNACK nobody is waiting for is just a
            # foreign packet); a CONNECT written while it is being processed (connect() again from the errback
            # of a refusal) is pending afterwards
            c.connect_pending = False
        sent = self._send(a, {"t": "CONNACK", "rc": rc_, "session": sp})
        if sent and rc_ == 0 and was and c.phase == "open" and self.live.get(a) is c:
            c.connack_ok = True

    def s_ack(self, a, kind, pick="old", codes=None):
        self._ack(a, kind, pick, codes)

    def s_dupack(self, a, kind, pick="new"):
        """Repeat an acknowledgement already given (duplicate / late)."""
        sh = self.shadow[a]
        ids = [i for i in sh.done[kind] if i not in self.outstanding(a, kind)]
        if kind in ("PUBACK", "PUBREC", "PUBCOMP"):
            # do not hit an identifier that has meanwhile been re-issued
            ids = [i for i in ids if i not in sh.pub or (kind == "PUBREC" and sh.pub[i]["state"] != "sent")]
        elif kind == "SUBACK":
            ids = [i for i in ids if i not in sh.sub]
        else:
            ids = [i for i in ids if i not in sh.unsub]
        i = self._pick(ids, pick)
        if i is None:
            return self.ev("skip", why="no earlier " + kind)
        pkt = {"t": kind, "id": i}
        if kind == "SUBACK":
            pkt["codes"] = [0]
        self._send(a, pkt)

    def s_stray(self, a, kind, ident=None):
        """An acknowledgement for an identifier the client never issued."""
        i = ident if ident is not None else self._never_issued(a)
        pkt = {"t": kind, "id": i}
        if kind == "SUBACK":
            pkt["codes"] = [1]
        self._send(a, pkt)

    def s_cross(self, a, kind):
        """An acknowledgement whose type does not fit the request holding the identifier
        (PUBACK for a QoS 2 message, SUBACK for a pending UNSUBSCRIBE, ...)."""
        other = {"PUBACK": ("PUBREC", "SUBACK"), "PUBREC": ("PUBACK", "UNSUBACK"), "PUBCOMP": ("PUBACK", "PUBREC"),
                 "SUBACK": ("UNSUBACK", "PUBACK", "PUBCOMP"), "UNSUBACK": ("SUBACK", "PUBREC")}[kind]
        ids = []
        for o in other:
            ids.extend(self.outstanding(a, o))
        if not ids:
            return self.ev("skip", why="nothing to cross-acknowledge")
        pkt = {"t": kind, "id": ids[0]}
        if kind == "SUBACK":
            pkt["codes"] = [0]
        self._send(a, pkt)

    def s_preack(self, a, kind):
        """A broker that acknowledges before it has sent its CONNACK."""
        c = self.live.get(a)
        if c is None or not c.connect_seen or c.connack_ok:
            return self.ev("skip", why="not connecting")
        sh = self.shadow[a]
        if kind == "PUBACK":
            ids = [i for i, v in sh.pub.items() if v["qos"] == 1 and v["state"] == "sent"]
        elif kind == "PUBREC":
            ids = [i for i, v in sh.pub.items() if v["qos"] == 2 and v["state"] == "sent"]
        elif kind == "PUBCOMP":
            ids = [i for i, v in sh.pub.items() if v["state"] == "rel"]
        else:
            ids = []
        if not ids:
            return self.ev("skip", why="nothing sent before CONNACK")
        self._send(a, {"t": kind, "id": ids[-1]})

    def s_early(self, a, kind):
        """Out-of-order acknowledgement inside a QoS 2 exchange: PUBCOMP
        before PUBREC."""
        ids = self.outstanding(a, "PUBREC")
        if not ids:
            return self.ev("skip", why="no exchange")
        self._send(a, {"t": "PUBCOMP", "id": ids[0]})

    def s_inpub(self, a, qos=0, dup=False, retain=False, idsel="new", size=2, tkind="plain"):
        sh = self.shadow[a]
        tok = self._tok(a)
        ident = None
        if qos:
            if idsel in ("reuse", "repeat") and sh.inq2 and (idsel == "repeat" or sh.in_last in sh.inq2):
                # the broker repeats an unfinished QoS 2 PUBLISH: same packet, DUP set
                ident = sh.in_last if (idsel == "reuse" and sh.in_last in sh.inq2) else next(iter(sh.inq2))
                old = sh.inq2_pkt.get(ident)
                if old is not None:
                    pkt = dict(old)
                    pkt["dup"] = True
                    self._send(a, pkt)
                    return
            if idsel == "reuse" and sh.in_last is not None and sh.in_last not in sh.inq2:
                ident = sh.in_last
            else:
                sh.in_next = sh.in_next % 65535 + 1
                ident = sh.in_next
            sh.in_last = ident
        pkt = {"t": "PUBLISH", "qos": qos, "dup": bool(dup) and qos > 0, "retain": retain,
               "topic": self._topic(tkind, tok), "id": ident,
               "payload": b"~%06d~" % tok + b"i" * size}
        c = self.live.get(a)
        if self._send(a, pkt) and qos == 2 and c is not None and c.connack_ok and not (c.clean and c.phase != "open"):
            sh.inq2.setdefault(ident, "sent")
            sh.inq2_pkt[ident] = pkt

    def s_inburst(self, a, qoss=(1, 1)):
        """Several inbound PUBLISH packets (fresh identifiers) in ONE segment."""
        sh = self.shadow[a]
        c = self.live.get(a)
        if c is None:
            return self.ev("skip", why="no connection")
        pkts = []
        for qos in qoss:
            tok = self._tok(a)
            ident = None
            if qos:
                sh.in_next = sh.in_next % 65535 + 1
                ident = sh.in_next
                sh.in_last = ident
            pkts.append({"t": "PUBLISH", "qos": qos, "dup": False, "retain": False, "topic": self._topic("plain", tok), "id": ident,
                         "payload": b"~%06d~" % tok + b"ib"})
        data = b"".join(rc.encode(p, c.level) for p in pkts)
        ok_before = c.connack_ok and not (c.clean and c.phase != "open")
        if self._feed(c, data, pkts, [data]) and ok_before:
            for p in pkts:
                if p["qos"] == 2:
                    sh.inq2.setdefault(p["id"], "sent")
                    sh.inq2_pkt[p["id"]] = p

    def s_inrel(self, a, sel="known", dup=False):
        sh = self.shadow[a]
        c = self.live.get(a)
        if sel == "known":
            ids = list(sh.inq2)
            if not ids:
                return self.ev("skip", why="no inbound exchange")
            ident = ids[0]
        elif sel == "repeat":
            ident = getattr(sh, "last_rel", None)
            if ident is None or ident in sh.inq2:
                return self.ev("skip", why="no earlier PUBREL")
        else:
            ident = 50000
            if ident in sh.inq2:
                return self.ev("skip", why="collision")
        if self._send(a, {"t": "PUBREL", "id": ident, "dup": bool(dup) and c is not None and c.level == 3}):
            sh.last_rel = ident
            if sel == "known":
                sh.inq2[ident] = "rel"

    def s_pingresp(self, a):
        self._send(a, {"t": "PINGRESP"})

    def s_raw(self, a, data, label=None):
        c = self.live.get(a)
        if c is None:
            return self.ev("skip", why="no connection")
        frames, rest, err = rc.split(data)
        pk = []
        for f in frames:
            p, bad = rc.decode_lenient(f, c.level)
            pk.append({"raw": f, "pkt": p, "bad": bad.reason if bad else None,
                       "tier": bad.tier if bad else None})
        self._feed(c, data, pk)
        for e in reversed(self.trace):
            if e["k"] == "in" and e["step"] == self.step_no:
                e["raw"] = True
                e["rest"] = rest
                e["frame_err"] = err.reason if err else None
                break

    def s_stream(self, a, pkts, cuts):
        """Several broker packets as one byte stream cut at the given offsets."""
        c = self.live.get(a)
        if c is None:
            return self.ev("skip", why="no connection")
        data = b"".join(rc.encode(p, c.level) for p in pkts)
        cuts = sorted(set(k for k in cuts if 0 < k < len(data)))
        chunks = [data[i:j] for i, j in zip([0] + cuts, cuts + [len(data)])]
        self._feed(c, data, pkts, chunks)

    def s_chunk(self, policy):
        self.chunking = policy

    # time and faults
    def s_tick(self):
        if ENV.reactor.fire_next() is None:
            self.ev("skip", why="no timer")

    def s_stall(self, dt):
        """The reactor is blocked for dt seconds (a long callback elsewhere, a GC pause, a suspended
        process): time passes, nothing fires; the overdue calls then fire back to back, in due order,
        when the next tick/adv step lets the reactor run."""
        ENV.reactor.set_time(ENV.reactor.seconds() + dt)
        self.ev("stall", dt=dt)

    def s_adv(self, dt, cap=100000):
        r = ENV.reactor
        target = r.seconds() + dt
        n = 0
        while n < cap and r.fire_next(limit=target) is not None:
            n += 1
        if n < cap:
            r.set_time(target)

    def s_lose(self, a, kind="done"):
        c = self.live.get(a)
        if c is None:
            return self.ev("skip", why="no connection")
        if c.tr._pending is not None and c.tr._pending.active():
            c.tr._pending.cancel()
        self._deliver_loss(c, failure.Failure(LOSS_REASONS[kind]()))

    def s_placeid(self, v):
        """Put the factory's identifier counter at v (C17 wrap workload)."""
        ok = hasattr(self.factory, "id") and isinstance(self.factory.id, int)
        if ok:
            self.factory.id = v
        self.ev("placeid", v=v, ok=ok)

    # ------------------------------------------------------------- end phase

    def answer_all(self, a, rounds=400):
        """The shadow broker acknowledges everything it has been sent on the
        live connection (and keeps doing so while that releases more)."""
        n = 0
        for _ in range(rounds):
            c = self.live.get(a)
            if c is None or c.phase != "open" or not c.connack_ok_now():
                break
            did = False
            for kind in ("PUBACK", "PUBREC", "PUBCOMP", "SUBACK", "UNSUBACK"):
                if self.outstanding(a, kind):
                    self.step(("ack", a, kind, "old"))
                    did = True
                    n += 1
                    break
            if not did:
                for ident, st in list(self.shadow[a].inq2.items()):
                    if st == "rec":
                        self.step(("inrel", a, "known"))
                        did = True
                        n += 1
                        break
            if not did:
                break
        return n

    def finish(self, horizon=6000.0):
        self.ev("end_begin")
        self.finishing = True
        self.cause = "end"
        for a in (0, 1):
            self.answer_all(a)
        self.step(("endprobe",))
        for a in (0, 1):
            self.answer_all(a)
        self.step(("endmark",))
        for a in (0, 1):
            if a in self.live:
                self.step(("lose", a, "done"))
        self.ended = True
        self.step(("adv", horizon, 200000))
        self.ev("end", unhandled=[_unh(u) for u in ENV.unhandled], draws=list(ENV.jitter.draws))
        ENV.reactor.sink = None
        ENV.fire_sink = None

    def s_endprobe(self):
        """A fresh subscribe()/unsubscribe()/publish() on every connection
        that is up must be treated like any other."""
        for a in (0, 1):
            c = self.live.get(a)
            if c is None or c.phase != "open" or not c.connack_ok_now():
                continue
            if self.cfg.profile in ("sub", "pubsub"):
                self._api_subscribe(c, "str", 1, 0)
                self._api_unsubscribe(c, "str", 1)
            if self.cfg.profile in ("pub", "pubsub"):
                self._api_publish(c, 1, False, 1, "endprobe")

    def s_endmark(self):
        pass


def _connack_ok_now(self):
    return self.connack_ok
Conn.connack_ok_now = _connack_ok_now


def _cause_of(op):
    if op in ("tick", "adv"):
        return "timer"
    if op in ("lose",):
        return "loss"
    if op in ("connack", "ack", "dupack", "stray", "early", "cross", "preack", "inpub", "inburst", "inrel", "pingresp", "raw", "stream"):
        return "inbound"
    return "api"


def _fname(f):
    n = getattr(f, "__qualname__", None) or getattr(f, "__name__", None)
    if n is None:
        n = type(f).__name__
    return n


def _state_name(p):
    try:
        return type(p.state).__name__
    except Exception:
        return "?"


def _is_idle(p):
    try:
        return p.state is p.IDLE
    except Exception:
        return None


def _plain(v):
    if isinstance(v, (int, float, str, bool, type(None))):
        return v
    if isinstance(v, (bytes, bytearray)):
        return bytes(v[:64])
    if isinstance(v, (list, tuple)):
        return [_plain(x) for x in v[:600]]
    if isinstance(v, dict):
        return {str(k): _plain(x) for k, x in list(v.items())[:20]}
    return "<%s>" % type(v).__name__


def _unh(u):
    f = u.get("log_failure")
    return type(f.value).__name__ if f is not None else "?"
