#!/bin/bash
# For every seeded/<id>: the demonstration passes on a scratch copy of /repo and fails once the patch is applied.
for d in /verif/seeded/S*; do
  id=$(basename $d)
  if grep -q '"neutralised": true' $d/meta.json; then echo "$id neutralised by a later repair (skipped)"; continue; fi
  t=$(mktemp -d /tmp/mqtt-seed-XXXXXX)
  rsync -a --exclude .git /repo/ $t/
  (cd $t && PYTHONPATH=$t/src timeout 120 /venv/bin/python $d/demo.py >/dev/null 2>&1); a=$?
  if ! patch -p1 -s -d $t -i $d/patch.diff >/dev/null 2>&1; then echo "$id patch does not apply"; rm -rf $t; continue; fi
  (cd $t && PYTHONPATH=$t/src timeout 120 /venv/bin/python $d/demo.py >/dev/null 2>&1); b=$?
  echo "$id demo without change: exit $a   with change: exit $b"
  rm -rf $t
done
