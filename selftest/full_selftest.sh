#!/bin/bash
# The whole self-validation, one stage after the other (several hours on 16 cores):
#   silence (seed sweep, quick tier) -> sensitivity (seeded faults, independent seeded changes) ->
#   false-alarm side (refactors and allowed alternatives) -> demos of the seeded changes
HERE="$(cd "$(dirname "${BASH_SOURCE[0]}")" && pwd)"
"$HERE/seed_sweep.sh" quick 0 5
"$HERE/run_mutants.py" --jobs 4 | tail -40
"$HERE/run_seeded.py" | tail -5
"$HERE/run_mutants.py" --refactors
"$HERE/confirm_seeded.sh" | grep -v "exit 0   with change: exit 1"
"$HERE/known_findings_selftest.py"
