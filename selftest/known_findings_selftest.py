#!/venv/bin/python
"""The known-findings mechanism, exercised on scratch copies of /repo with a synthetic findings file
(the committed known_findings.json has no open entry since fixes 30 and 32):

 1. the reversal of fix 32 (gaps shrink for factor < 1) with that mechanism listed as open
    -> the C08 check prints KNOWN-FINDING and exits 0;
 2. the same tree plus the reversal of fix 30 (fresh jitter per retry), which is NOT listed
    -> the check still prints KNOWN-FINDING for the listed one and exits 1 with a VIOLATION line for the other;
 3. the reversal of fix 32 with nothing listed -> exit 1.
"""
import json
import os
import shutil
import subprocess
import sys
import tempfile

HERE = os.path.dirname(os.path.abspath(__file__))
sys.path.insert(0, HERE)
import mutants            # noqa: E402
import run_mutants as RM  # noqa: E402


def run(edits, findings):
    d = RM.make_copy("kf")
    try:
        err = RM.apply_edits(d, edits)
        assert err is None, err
        fpath = os.path.join(d, "findings.json")
        json.dump(findings, open(fpath, "w"))
        out = tempfile.mkdtemp(prefix="ev-", dir=d)
        env = dict(os.environ, VERIF_REPO_SRC=os.path.join(d, "src"), VERIF_EVIDENCE_DIR=out, VERIF_REPLAY_DIR=out,
                   VERIF_WORK_DIR=out, VERIF_KNOWN_FINDINGS=fpath)
        r = subprocess.run([os.path.join(RM.VERIF, "bin", "check"), "C08", "--tier", "quick"], env=env, capture_output=True, text=True)
        return r.returncode, r.stdout
    finally:
        shutil.rmtree(d, ignore_errors=True)


def main():
    clamp = mutants.M["c08-no-monotone-clamp"][1]
    jitter = mutants.M["c08-fresh-jitter-per-retry"][1]
    listed = {"open": [{"property": "C08", "signature": "C08.publish-gap-shrinks/factor<1", "what": "synthetic entry: gaps shrink for factor < 1"}], "fixed": []}
    ok = True
    rc, out = run(clamp, listed)
    good = rc == 0 and "KNOWN-FINDING: property=C08" in out and "VIOLATION" not in out
    print("1. listed mechanism only:            exit %d, KNOWN-FINDING %s, VIOLATION %s -> %s" % (rc, "KNOWN-FINDING" in out, "VIOLATION" in out, "ok" if good else "WRONG"))
    ok &= good
    rc, out = run(clamp + jitter, listed)
    good = rc == 1 and "KNOWN-FINDING: property=C08" in out and "VIOLATION property=C08" in out and "jitter-only" in out
    print("2. listed + an unlisted mechanism:   exit %d, KNOWN-FINDING %s, VIOLATION %s -> %s" % (rc, "KNOWN-FINDING" in out, "VIOLATION" in out, "ok" if good else "WRONG"))
    ok &= good
    rc, out = run(clamp, {"open": [], "fixed": []})
    good = rc == 1 and "KNOWN-FINDING" not in out and "VIOLATION property=C08" in out
    print("3. nothing listed:                   exit %d, KNOWN-FINDING %s, VIOLATION %s -> %s" % (rc, "KNOWN-FINDING" in out, "VIOLATION" in out, "ok" if good else "WRONG"))
    ok &= good
    return 0 if ok else 1


if __name__ == "__main__":
    sys.exit(main())
