"""Seeded faults for the sensitivity self-test (DESIGN.md section 7).

Each mutant: name -> (owning properties, file under src/mqtt, old text, new text).
`old` must occur exactly once in the file.  Mutants are applied to a scratch
copy of /repo/src (never to /repo), the 85 baseline tests are run against the
copy (a mutant the suite already catches is reported as such), then the quick
check of each owning property must exit 1."""

P = "client/pubsubs.py"
B = "client/base.py"
F = "client/factory.py"
I = "client/interval.py"
D = "pdu.py"
S = "client/subscriber.py"
PB = "client/publisher.py"

M = {}


def m(name, props, file, old, new, more=()):
    assert name not in M, name
    M[name] = (props.split(), [(file, old, new)] + list(more))


# ---- C01 / C02 codec
m("c01-string-len-in-chars", "C01 C02", D, "    l = len(encoded)-2\n", "    l = len(string)\n")
m("c01-decodelength-multiplier", "C01", D, "        multiplier *= 0x80\n", "        multiplier *= 0x7F\n")
m("c01-publish-payload-offset-chars", "C01 C02", D, "        topicLen       = decode16Int(packet_remaining)\n", "        topicLen       = len(self.topic)\n")
m("c01-subscribe-decode-qos-mask", "C01", D, "            qos =  int (packet_remaining[0]) & 0x03\n", "            qos =  int (packet_remaining[0]) & 0x01\n")
m("c01-encodelength-boundary", "C01 C02", D, "        if value > 0:\n            digit |= 128\n", "        if value > 1:\n            digit |= 128\n")
m("c02-subscribe-header-0x80", "C02 C18", D, "        header[0] = 0x82        # packet with QoS=1\n", "        header[0] = 0x80        # packet with QoS=1\n")
m("c02-unsubscribe-header-0xa0", "C02 C18", D, "        header[0] = 0xA2    # packet with QoS=1\n", "        header[0] = 0xA0    # packet with QoS=1\n")
m("c02-pubrel-header-0x60", "C02 C18", D, "        header[0] = 0x62    # packet with QoS=1\n", "        header[0] = 0x60    # packet with QoS=1\n")
m("c02-will-retain-bit4", "C02", D, "(self.willRetain << 5) | (self.willQoS << 3)", "(self.willRetain << 4) | (self.willQoS << 3)")
m("c02-string-limit-off-by-one", "C02 C20", D, "    if(l > 65535):\n", "    if(l > 65536):\n")
m("c02-dup-shift-2", "C02 C08", P, "        request.encoded[0] |=  (dup << 3)   # set the dup flag\n        request.dup = dup\n", "        request.encoded[0] |=  (dup << 2)   # set the dup flag\n        request.dup = dup\n")
m("c02-qos0-emits-id", "C02 C01", D, "            header[0] = 0x30 | self.retain\n            varHeader.extend(encodeString(self.topic)) # topic name\n",
  "            header[0] = 0x30 | self.retain\n            varHeader.extend(encodeString(self.topic)) # topic name\n            varHeader.extend(encode16Int(self.msgId or 0))\n")
m("c02-suback-decode-flag", "C02 C07", D, "(byte & 0x7F, byte & 0x80 == 0x80)", "(byte & 0x03, byte & 0x80 == 0x80)")
m("c02-connack-session-bit", "C02 C04", D, "        self.session = (packet_remaining[0] & 0x01) == 0x01 \n", "        self.session = (packet_remaining[0] & 0x03) != 0 \n")
m("c02-payload-bytes-accepted", "C02 C20", D, "        if isinstance(self.payload, bytearray):\n", "        if isinstance(self.payload, (bytearray, bytes)):\n")

# ---- C03 framing
m("c03-min-header-1", "C03", B, "                if len(self._buffer) < 2:\n", "                if len(self._buffer) < 1:\n")
m("c03-complete-strict", "C03", B, "            if len(self._buffer) >= length + lenLen + 1:\n", "            if len(self._buffer) > length + lenLen + 1:\n")
m("c03-slice-off-by-one", "C03", B, "                self._buffer = self._buffer[length + lenLen + 1:]\n", "                self._buffer = self._buffer[length + lenLen + 2:]\n")
m("c03-partial-clears-buffer", "C03", B, "            else:\n                break\n\n # ----", "            else:\n                self._buffer = bytearray()\n                break\n\n # ----")
m("c03-lenlen-scan-short", "C03", B, "                while lenLen < len(self._buffer):\n", "                while lenLen < len(self._buffer) - 1:\n")
m("c03-no-loop-second-packet", "C03", B, "                self._buffer = self._buffer[length + lenLen + 1:]\n                length = None\n", "                self._buffer = self._buffer[length + lenLen + 1:]\n                length = None\n                break\n")

# ---- C04 connect
m("c04-connack-no-cancel", "C04 C13", B, "        self.connReq = None     # before the callbacks are fired: an errback may call connect() again\n        request.alarm.cancel()\n", "        self.connReq = None     # before the callbacks are fired: an errback may call connect() again\n")
m("c04-refused-stays-connecting", "C04 C14", B, "        else:\n            self.state = self.IDLE\n            if response.resultCode < len(MQTT_CONNECT_CODES):", "        else:\n            if response.resultCode < len(MQTT_CONNECT_CODES):")
m("c04-timeout-ignores-keepalive", "C04", B, "self.callLater(request.keepalive or 10, connectError)", "self.callLater(10, connectError)")
m("c04-ondisconnection-twice", "C04", B, "            self.callLater(0.1, self.onDisconnection, reason)\n", "            self.callLater(0.1, self.onDisconnection, reason)\n            self.callLater(0.2, self.onDisconnection, reason)\n")
m("c04-lost-not-idle", "C04", B, "        # back to IDLE first: errbacks fired by the clean-up below may call the API\n        self.state = self.IDLE\n", "        # back to IDLE first: errbacks fired by the clean-up below may call the API\n")
m("c04-success-value-rc", "C04", B, "            request.deferred.callback(response.session)\n", "            request.deferred.callback(response.resultCode)\n")
m("c04-timeout-no-abort", "C04", B, "            request.deferred = None\n            self.transport.abortConnection()            \n", "            request.deferred = None\n")
m("c04-ondisconnection-new-failure", "C04", B, "            self.callLater(0.1, self.onDisconnection, reason)\n", "            self.callLater(0.1, self.onDisconnection, failure.Failure(reason.value))\n")
m("c04-refused-errback-wrong-type", "C04", B, "            request.deferred.errback(MQTTStateError(response.resultCode, msg))\n", "            request.deferred.errback(MQTTTimeoutError(msg))\n")

# ---- C05 publish deferred
m("c05-success-on-pubrec", "C05 C09", P, "            reply.deferred = request.deferred       # Transfer the deferred to PUBREL\n", "            reply.deferred = request.deferred       # Transfer the deferred to PUBREL\n            if not reply.deferred.called: reply.deferred.callback(reply.msgId)\n")
m("c05-qos1-success-at-enqueue", "C05", P, "        request.deferred.msgId = request.msgId\n        self._refillPublish(dup=False)\n        return  request.deferred \n", "        request.deferred.msgId = request.msgId\n        self._refillPublish(dup=False)\n        if request.qos == 1 and len(self.factory.queuePublishTx[self.addr]) > 2 and not request.deferred.called: request.deferred.callback(request.msgId)\n        return  request.deferred \n")

# ---- C06 inbound
m("c06-qos1-delivered-twice-on-dup", "C06", P, "            self.transport.write(reply.encode())\n            self._deliver(response)\n        elif response.qos == 2:", "            self.transport.write(reply.encode())\n            self._deliver(response)\n            if response.dup: self._deliver(response)\n        elif response.qos == 2:")
m("c06-qos2-delivered-at-publish-too", "C06", P, "            self.factory.windowPubRx[self.addr][response.msgId] = response\n", "            self.factory.windowPubRx[self.addr][response.msgId] = response\n            if response.retain: self._deliver(response)\n")
m("c06-pubrec-constant-id", "C06", P, "            reply = PUBREC()\n            reply.msgId = response.msgId\n", "            reply = PUBREC()\n            reply.msgId = response.msgId & 0x00FF\n")
m("c06-inbound-store-dropped-at-loss", "C06", P, "        # Cancel Alarms first\n        self._cancelAlarms()\n", "        # Cancel Alarms first\n        self._cancelAlarms()\n        self.factory.windowPubRx[self.addr].clear()\n")
m("c06-deliver-swaps-dup-retain", "C06", P, "self.onPublish(pdu.topic, pdu.payload, pdu.qos, pdu.dup, pdu.retain, pdu.msgId)", "self.onPublish(pdu.topic, pdu.payload, pdu.qos, pdu.retain, pdu.dup, pdu.msgId)")
m("c06-no-puback-when-no-handler-path", "C06", P, "            log.debug(\"<== {packet:7} (id={response.msgId:04x})\" , packet=\"PUBACK\", response=response)\n            self.transport.write(reply.encode())\n", "            log.debug(\"<== {packet:7} (id={response.msgId:04x})\" , packet=\"PUBACK\", response=response)\n            if not response.dup: self.transport.write(reply.encode())\n")

# ---- C07 subscribe
m("c07-topic-order-reversed", "C07 C02", P, "        try:\n            self._checkSubscribe(request)\n", "        try:\n            if isinstance(request.topics, list) and len(request.topics) > 2: request.topics = request.topics[::-1]\n            self._checkSubscribe(request)\n")
m("c07-tuple-shape-loses-qos", "C07 C02", P, "            request.topics = [(request.topics[0], request.topics[1])] \n", "            request.topics = [(request.topics[0], request.qos)] \n")
m("c07-window-off-by-one", "C07", P, "        if len(self.factory.windowSubscribe[self.addr]) >= self._window:\n", "        if len(self.factory.windowSubscribe[self.addr]) > self._window:\n")
m("c07-unsuback-callback-value", "C07", P, "            request.deferred.callback(response.msgId)\n", "            request.deferred.callback(None)\n")
m("c07-unsub-window-not-failed-at-loss", "C07 C11", P, "        for k in list(self.factory.windowUnsubscribe[self.addr]):\n            request = self.factory.windowUnsubscribe[self.addr][k]\n            del self.factory.windowUnsubscribe[self.addr][k]\n            request.deferred.errback(reason)\n",
  "        for k in list(self.factory.windowUnsubscribe[self.addr]):\n            request = self.factory.windowUnsubscribe[self.addr][k]\n            del self.factory.windowUnsubscribe[self.addr][k]\n")
m("c07-suback-ignores-id-when-single", "C07", P, "        try:\n            request = self.factory.windowSubscribe[self.addr][response.msgId]\n        except KeyError as e:\n",
  "        try:\n            w = self.factory.windowSubscribe[self.addr]\n            if len(w) == 1: response.msgId = next(iter(w))\n            request = self.factory.windowSubscribe[self.addr][response.msgId]\n        except KeyError as e:\n")
m("c07-unsub-window-uses-sub-window", "C07", P, "        if len(self.factory.windowUnsubscribe[self.addr]) >= self._window:\n", "        if len(self.factory.windowSubscribe[self.addr]) >= self._window:\n")

# ---- C08 retransmission
m("c08-publish-retry-once", "C08 C13", P, "        request.retries += 1\n", "        request.retries += 1\n        if request.retries > 2: return\n")
m("c08-no-dup-on-publish-retry", "C08 C12", P, "        self._retryPublish(request, dup=True)\n\n    # --------------------------------------------------------------------------\n\n    def _pubrelError", "        self._retryPublish(request, dup=False)\n\n    # --------------------------------------------------------------------------\n\n    def _pubrelError")
m("c08-dup-on-subscribe-311", "C08 C18", P, "        if self._version == v31:\n            request.encoded[0] |=  (dup << 3)   # set the dup flag\n        interval = request.interval() + 0.25*len(self.factory.windowSubscribe[self.addr])\n", "        if True:\n            request.encoded[0] |=  (dup << 3)   # set the dup flag\n        interval = request.interval() + 0.25*len(self.factory.windowSubscribe[self.addr])\n")
m("c08-first-delay-halved", "C08", I, "        self._value   = self.initial\n        self._jitter", "        self._value   = self.initial/2.0\n        self._jitter", more=[(I, "max(self._value, self.initial + (self._k*size)/self.bandwith)", "max(self._value, self.initial/2.0 + (self._k*size)/self.bandwith)")])
m("c08-no-monotone-clamp", "C08", I, "        self._value = max(self._value, self.initial + (self._k*size)/self.bandwith)\n", "        self._value = self.initial + (self._k*size)/self.bandwith\n")
m("c08-linear-k-shrinks", "C08", I, "        self._k    *= self.factor\n", "        self._k    /= self.factor\n")
m("c08-fresh-jitter-per-retry", "C08", I, "        if self._jitter is None:\n            self._jitter = random.random()\n        return self._value + self._jitter", "        return self._value + random.random()")
m("c08-exponential-first-below-initial", "C08", I, "        self._value *= self.factor\n        self._value = min(self._value, self.maxDelay)\n        return self._value + random.random()", "        self._value *= self.factor\n        self._value = min(self._value, self.maxDelay)\n        return self._value/4.0 + random.random()")
m("c08-unsub-retry-reencodes", "C08", P, "        self._retryUnsubscribe(request, dup=True)\n", "        request.topics = request.topics[:1]\n        request.encode()\n        request.encoded = bytearray(request.encoded)\n        self._retryUnsubscribe(request, dup=True)\n")

# ---- C09 QoS 2 order
m("c09-pubrec-keeps-publish-timer", "C09 C13", P, "            log.debug(\"<== {packet:7} (id={response.msgId:04x})\", packet=\"PUBREC\", response=response)\n            request.alarm.cancel()\n", "            log.debug(\"<== {packet:7} (id={response.msgId:04x})\", packet=\"PUBREC\", response=response)\n")
m("c09-pubrec-keeps-window-entry", "C09 C12", P, "            request.alarm.cancel()\n            del self.factory.windowPublish[self.addr][response.msgId]\n            reply = PUBREL()\n", "            request.alarm.cancel()\n            request.alarm = None\n            reply = PUBREL()\n")
m("c09-resume-resends-publish-of-released", "C09 C12", P, "        for _, reply in self.factory.windowPubRelease[self.addr].items():\n            self._retryRelease(reply, dup=True)\n", "        for _, reply in self.factory.windowPubRelease[self.addr].items():\n            self._retryRelease(reply, dup=True)\n            if getattr(reply, 'origin', None) is not None: self._retryPublish(reply.origin, dup=True)\n",
  more=[(P, "            reply.retries  = request.retries        # and the retry count\n", "            reply.retries  = request.retries        # and the retry count\n            reply.origin   = request\n")])

# ---- C10 window
m("c10-window-off-by-one", "C10", P, "len(self.factory.windowPublish[cnx]) < self._window):", "len(self.factory.windowPublish[cnx]) <= self._window):")
m("c10-lifo", "C10", P, "            request = queue.popleft()\n", "            request = queue.pop()\n")
m("c10-no-refill-on-pubcomp", "C10 C05", P, "            del self.factory.windowPubRelease[self.addr][reply.msgId]\n            self._refillPublish(dup=False)\n", "            del self.factory.windowPubRelease[self.addr][reply.msgId]\n")
m("c10-qos0-bypasses-queue", "C10", P, "        request.protocol = self     # the connection this request was made on\n        self.factory.queuePublishTx[self.addr].append(request)\n", "        request.protocol = self     # the connection this request was made on\n        if request.qos == 0:\n            self._retryPublish(request, False)\n            request.deferred.msgId = None\n            return request.deferred\n        self.factory.queuePublishTx[self.addr].append(request)\n")
m("c10-refill-uses-max-window", "C10", P, "len(self.factory.windowPublish[cnx]) < self._window):", "len(self.factory.windowPublish[cnx]) < self.MAX_WINDOW):")
m("c10-no-refill-at-connack", "C10", P, "        # the window may have room now for messages that were held back\n        self._refillPublish(dup=False)\n", "        # the window may have room now for messages that were held back\n")

# ---- C11 clean session
m("c11-release-window-skipped", "C11", P, "        for k in list(self.factory.windowPubRelease[self.addr]):\n            request = self.factory.windowPubRelease[self.addr].get(k)\n", "        for k in list(self.factory.windowPubRelease[self.addr]) if inherited else []:\n            request = self.factory.windowPubRelease[self.addr].get(k)\n")
m("c11-failure-other-exception", "C11", P, "        if self._cleanStart:\n            self._purgeSession(reason)\n", "        if self._cleanStart:\n            self._purgeSession(MQTTSessionCleared())\n")
m("c11-new-protocol-inherits-session-mode", "C11 C12", F, "        self.protocol = MQTTProtocol(self, addr)\n", "        old = getattr(self, 'protocol', None)\n        self.protocol = MQTTProtocol(self, addr)\n        if old is not None: self.protocol._cleanStart = old._cleanStart\n")
m("c11-queue-not-purged-qos2", "C11 C12", P, "            if request.msgId:   # QoS 0 deferreds have already fired\n                request.deferred.errback(reason)\n", "            if request.msgId and request.qos == 1:   # QoS 0 deferreds have already fired\n                request.deferred.errback(reason)\n")
m("c11-subscribe-failed-with-none", "C11 C07", P, "        for k in list(self.factory.windowSubscribe[self.addr]):\n            request = self.factory.windowSubscribe[self.addr][k]\n            del self.factory.windowSubscribe[self.addr][k]\n            request.deferred.errback(reason)\n", "        for k in list(self.factory.windowSubscribe[self.addr]):\n            request = self.factory.windowSubscribe[self.addr][k]\n            del self.factory.windowSubscribe[self.addr][k]\n            request.deferred.errback(MQTTWindowError())\n")

# ---- C12 persistent session
m("c12-resume-dup0", "C12 C08", P, "            if request.alarm is None:   # not what was already sent while waiting for CONNACK\n                self._retryPublish(request, dup=True)\n", "            if request.alarm is None:   # not what was already sent while waiting for CONNACK\n                self._retryPublish(request, dup=False)\n")
m("c12-resume-reversed", "C12", P, "        for _, request in self.factory.windowPublish[self.addr].items():\n            if request.alarm is None:", "        for _, request in reversed(list(self.factory.windowPublish[self.addr].items())):\n            if request.alarm is None:")
m("c12-persistent-loss-purges-release", "C12", P, "        if self._cleanStart:\n            self._purgeSession(reason)\n", "        if self._cleanStart or len(self.factory.windowPubRelease[self.addr]) > 1:\n            self._purgeSession(reason)\n")
m("c12-clean-connect-no-purge", "C12", P, "        if self._cleanStart:\n            self._purgeSession(MQTTSessionCleared(), inherited=True)\n        else:", "        if False:\n            self._purgeSession(MQTTSessionCleared(), inherited=True)\n        else:")
m("c12-resume-skips-pubrel", "C12", P, "        for _, reply in self.factory.windowPubRelease[self.addr].items():\n            self._retryRelease(reply, dup=True)\n", "        for _, reply in list(self.factory.windowPubRelease[self.addr].items())[:1]:\n            self._retryRelease(reply, dup=True)\n")

# ---- C13 silence
m("c13-puback-no-cancel", "C13", P, "            log.debug(\"<== {packet:7} (id={response.msgId:04x})\", packet=\"PUBACK\", response=response)\n            request.alarm.cancel()\n", "            log.debug(\"<== {packet:7} (id={response.msgId:04x})\", packet=\"PUBACK\", response=response)\n")
m("c13-suback-no-cancel", "C13", P, "            del self.factory.windowSubscribe[self.addr][response.msgId]\n            request.alarm.cancel()\n", "            del self.factory.windowSubscribe[self.addr][response.msgId]\n")
m("c13-unsuback-no-cancel", "C13", P, "            del self.factory.windowUnsubscribe[self.addr][response.msgId]\n            request.alarm.cancel()\n", "            del self.factory.windowUnsubscribe[self.addr][response.msgId]\n")
m("c13-loss-keeps-keepalive-loop", "C13 C15", B, "        if self._pingReq.timer:\n            self._pingReq.timer.stop()\n            self._pingReq.timer = None\n", "        if self._pingReq.timer and self.state is self.CLOSING:\n            self._pingReq.timer.stop()\n            self._pingReq.timer = None\n")
m("c13-loss-skips-release-alarms", "C13", P, "        for _, request in self.factory.windowPubRelease[self.addr].items():\n            if request.alarm is not None:\n                request.alarm.cancel()\n                request.alarm = None\n", "")
m("c13-pingresp-no-cancel", "C13 C15", B, "        if self._pingReq.alarm is not None:\n            self._pingReq.alarm.cancel()\n            self._pingReq.alarm = None\n", "        if self._pingReq.alarm is not None:\n            self._pingReq.alarm = None\n")

# ---- C14 gating
m("c14-publisher-gains-subscribe", "C14", PB, "class ConnectedState(BaseConnectedState):\n\n    def publish(self, request):\n        return self.protocol.doPublish(request)\n", "class ConnectedState(BaseConnectedState):\n\n    def publish(self, request):\n        return self.protocol.doPublish(request)\n\n    def subscribe(self, request):\n        return self.protocol.doSubscribe(request)\n")
m("c14-idle-accepts-publish", "C14", P, "class IdleState(BaseIdleState):\n    pass\n", "class IdleState(BaseIdleState):\n    def publish(self, request):\n        return self.protocol.doPublish(request)\n")
m("c14-connecting-accepts-subscribe", "C14", P, "    # The standard allows publishing data without waiting for CONNACK\n    def publish(self, request):\n        return self.protocol.doPublish(request)\n\n# ---------------------------------\n# MQTT Client Connected State Class\n# ---------------------------------\n\nclass ConnectedState(BaseConnectedState):\n\n    def publish(self, request):\n        return self.protocol.doPublish(request)\n\n    def subscribe(self, request):",
  "    # The standard allows publishing data without waiting for CONNACK\n    def publish(self, request):\n        return self.protocol.doPublish(request)\n\n    def subscribe(self, request):\n        return self.protocol.doSubscribe(request)\n\n# ---------------------------------\n# MQTT Client Connected State Class\n# ---------------------------------\n\nclass ConnectedState(BaseConnectedState):\n\n    def publish(self, request):\n        return self.protocol.doPublish(request)\n\n    def subscribe(self, request):")
m("c14-subscriber-handles-puback", "C14", S, "    # QoS=2 packets\n    def handlePUBREL(self, response):\n        self.protocol.handlePUBREL(response)\n", "    # QoS=2 packets\n    def handlePUBREL(self, response):\n        self.protocol.handlePUBREL(response)\n\n    def handlePUBCOMP(self, response):\n        self.protocol.transport.write(b'\\xc0\\x00')\n")
m("c14-disconnect-while-connecting", "C14", B, "class ConnectingState(BaseState):\n\n    def handleCONNACK(self, response):\n        self.protocol.handleCONNACK(response)\n", "class ConnectingState(BaseState):\n\n    def handleCONNACK(self, response):\n        self.protocol.handleCONNACK(response)\n\n    def disconnect(self, request):\n        self.protocol.doDisconnect(request)\n")
m("c14-connected-handles-connack", "C14", B, "class ConnectedState(BaseState):\n\n\n    def disconnect(self, request):", "class ConnectedState(BaseState):\n\n    def handleCONNACK(self, response):\n        self.protocol.mqttConnectionMade()\n\n    def disconnect(self, request):")
m("c14-refused-op-wrong-exception", "C14", B, "        return defer.fail(MQTTStateError(\"Unexpected subscribe() operation\", state))\n", "        return defer.fail(MQTTWindowError(\"Unexpected subscribe() operation\", state))\n")

# ---- C15 keepalive
m("c15-loop-period-2k", "C15", B, "                self._pingReq.timer.start(request.keepalive)\n", "                self._pingReq.timer.start(request.keepalive*2)\n")
m("c15-deadline-2k", "C15", B, "self.callLater(self._pingReq.keepalive, doPingError)", "self.callLater(self._pingReq.keepalive*2, doPingError)")
m("c15-k0-starts-loop", "C15", B, "            if request.keepalive != 0:\n                self._pingReq.keepalive = request.keepalive\n", "            if True:\n                self._pingReq.keepalive = request.keepalive or 30\n                request.keepalive = request.keepalive or 30\n")
m("c15-first-ping-after-k", "C15", B, "                self._pingReq.timer.start(request.keepalive)\n", "                self._pingReq.timer.start(request.keepalive, now=False)\n")
m("c15-pingerror-no-abort", "C15", B, "            self._pingReq.alarm = None    # it has just fired: nothing left to cancel\n            self.transport.abortConnection()\n", "            self._pingReq.alarm = None    # it has just fired: nothing left to cancel\n")

# ---- C16 containment
m("c16-publish-decode-unguarded", "C16", B, "        response = PUBLISH()\n        try:\n            response.decode(packet)\n        except Exception as e:", "        response = PUBLISH()\n        try:\n            response.decode(packet)\n        except KeyError as e:")
m("c16-unknown-type-not-caught", "C16", B, "        except KeyError as e:\n            # Invalid packet type, throw away this packet\n", "        except IndexError as e:\n            # Invalid packet type, throw away this packet\n")
m("c16-missing-handler-raises", "C16", B, "            # No decoder\n            log.error(\"Invalid packet decoder for %s\" % packet_type_name)\n            self.transport.abortConnection()\n            return\n", "            # No decoder\n            raise RuntimeError(\"Invalid packet decoder for %s\" % packet_type_name)\n")
m("c16-malformed-gets-disconnect", "C16 C18", B, "            log.error(\"MQTT SUBACK PDU corrupt. Closing connection !\")\n            self.transport.abortConnection()\n", "            log.error(\"MQTT SUBACK PDU corrupt. Closing connection !\")\n            self.transport.write(DISCONNECT().encode())\n            self.transport.abortConnection()\n")
m("c16-short-puback-accepted", "C16", D, "        self.msgId = decode16Int(packet_remaining)\n\n\n# ------------------------------------------------------------------------------\n\nclass PUBREC", "        self.msgId = decode16Int(packet_remaining) if len(packet_remaining) > 1 else 1\n\n\n# ------------------------------------------------------------------------------\n\nclass PUBREC")

# ---- C17 identifiers
m("c17-counter-no-zero-skip", "C17", F, "            self.id = self.id or 1   # avoid id 0\n", "")
m("c17-wrap-to-65536", "C17", F, "            self.id = (self.id + 1) % 65536\n", "            self.id = (self.id + 1) % 65537\n")
m("c17-counter-reset-by-buildprotocol", "C17", F, "        self.protocol = MQTTProtocol(self, addr)\n", "        self.id = 0\n        self.protocol = MQTTProtocol(self, addr)\n")
m("c17-inuse-ignores-release-window", "C17", F, "        for windows in (self.windowPublish, self.windowPubRelease, self.windowSubscribe, self.windowUnsubscribe):\n", "        for windows in (self.windowPublish, self.windowSubscribe, self.windowUnsubscribe):\n")
m("c17-inuse-ignores-queue", "C17", F, "                if request.msgId == msgId:\n                    return True\n", "                if request.msgId == msgId:\n                    return False\n")

# ---- C18 stream
m("c18-pingreq-at-makeconnection", "C18", B, "    def dataReceived(self, data):\n        self._accumulatePacket(data)\n", "    def connectionMade(self):\n        self.transport.write(self._pingReq.pdu)\n\n    def dataReceived(self, data):\n        self._accumulatePacket(data)\n")
m("c18-disconnect-without-close", "C18", B, "        self.doDisconnected()\n        self.transport.loseConnection()\n", "        self.doDisconnected()\n")
m("c18-connect-while-connecting", "C18 C14", B, "class ConnectingState(BaseState):\n\n    def handleCONNACK(self, response):\n        self.protocol.handleCONNACK(response)\n", "class ConnectingState(BaseState):\n\n    def handleCONNACK(self, response):\n        self.protocol.handleCONNACK(response)\n\n    def connect(self, request):\n        return self.protocol.doConnect(request)\n")
m("c18-connectionlost-writes-disconnect", "C18 C13", B, "        self._stopKeepalive()\n        # back to IDLE first", "        self._stopKeepalive()\n        if self.state is self.CONNECTED: self.transport.write(DISCONNECT().encode())\n        # back to IDLE first")
m("c18-closing-keeps-keepalive", "C16", B, "        self.state = self.CLOSING\n        self._stopKeepalive()\n", "        self.state = self.CLOSING\n")

# ---- C19 independence
m("c19-shared-default-container", "C19", F, "        v = self.windowPublish.get(addr, dict() )\n        self.windowPublish[addr] = v\n", "        v = self.windowPublish.get(addr, self.windowPublish.setdefault('shared', dict()) )\n        self.windowPublish[addr] = v\n")
m("c19-purge-all-addresses", "C19", P, "        for k in list(self.factory.windowPublish[self.addr]):\n            request = self.factory.windowPublish[self.addr].get(k)\n            if request is None:\n                continue\n            if inherited and request.protocol is self:\n                continue\n            del self.factory.windowPublish[self.addr][k]\n",
  "        for addr in list(self.factory.windowPublish):\n          for k in list(self.factory.windowPublish[addr]):\n            request = self.factory.windowPublish[addr].get(k)\n            if request is None:\n                continue\n            if inherited and request.protocol is self:\n                continue\n            del self.factory.windowPublish[addr][k]\n")
m("rev-7fa4954-purge-skips-queue", "C11 C12", P, "        for request in list(self.factory.queuePublishTx[self.addr]):\n            if inherited and request.protocol is self:\n                continue\n            if request not in", "        for request in []:\n            if inherited and request.protocol is self:\n                continue\n            if request not in")
m("rev-c59b799-purge-keeps-alarm", "C13", P, "            if request.alarm is not None:   # sent again on this connection before the purge\n                request.alarm.cancel()\n                request.alarm = None\n", "")
m("rev-7ff9ac1-refill-without-state-check", "C18", P, "        if self.state is not self.CONNECTED and self.state is not self.CONNECTING:\n            return  # an errback fired just before (e.g. by the purge at CONNACK) may have disconnected\n", "")
m("rev-2c13727-window-lower-bound", "C20", B, "        if not (1 <= n <= self.MAX_WINDOW):\n", "        if not (0 < n <= self.MAX_WINDOW):\n")
m("c19-window-from-last-protocol", "C19", P, "        while queue and (not queue[0].msgId or len(self.factory.windowPublish[cnx]) < self._window):", "        while queue and (not queue[0].msgId or len(self.factory.windowPublish[cnx]) < self.factory.protocol._window):")
m("c19-sub-window-counts-all-addresses", "C19", P, "        if len(self.factory.windowSubscribe[self.addr]) >= self._window:\n", "        if sum(len(w) for w in self.factory.windowSubscribe.values()) >= self._window:\n")

# ---- C20 arguments
m("c20-window-accepts-17", "C20", B, "        if not (1 <= n <= self.MAX_WINDOW):\n", "        if not (1 <= n <= self.MAX_WINDOW + 1):\n")
m("c20-window-accepts-0", "C20", B, "        if not (1 <= n <= self.MAX_WINDOW):\n", "        if not (0 <= n <= self.MAX_WINDOW):\n")
m("c20-timeout-bounds-strict", "C20", B, "        if not ( 1 <= timeout <= self.TIMEOUT_MAX_INITIAL ):\n", "        if not ( 1 < timeout < self.TIMEOUT_MAX_INITIAL ):\n")
m("c20-publish-qos3-accepted", "C20", P, "        if not ( 0<= request.qos < 3):\n            raise QoSValueError(\"publish()\",request.qos)\n", "        if not ( 0<= request.qos < 4):\n            raise QoSValueError(\"publish()\",request.qos)\n")
m("c20-refused-publish-enqueued", "C20", P, "        try:\n            request.encode()\n        except Exception as e:\n            return defer.fail(e)\n\n        request.protocol = self", "        try:\n            request.encode()\n        except ValueError as e:\n            self.factory.queuePublishTx[self.addr].append(request)\n            return defer.fail(e)\n        except Exception as e:\n            return defer.fail(e)\n\n        request.protocol = self")
m("c20-keepalive-65536", "C20", B, "        if not ( 0 <= request.keepalive <= 65535):\n", "        if not ( 0 <= request.keepalive <= 65536):\n")
m("c20-refused-subscribe-registered", "C20", P, "        try:\n            self._checkSubscribe(request)\n            request.msgId = self.factory.makeId()\n            request.encode()\n        except Exception as e:\n            return defer.fail(e)\n", "        try:\n            self._checkSubscribe(request)\n            request.msgId = self.factory.makeId()\n            request.encode()\n        except ValueError as e:\n            request.alarm = None\n            request.deferred = defer.Deferred()\n            request.deferred.addErrback(lambda f: None)\n            self.factory.windowSubscribe[self.addr][request.msgId or 0] = request\n            return defer.fail(e)\n        except Exception as e:\n            return defer.fail(e)\n")
m("c20-v31-clientid-24", "C20", B, "len(request.clientId) > 23:", "len(request.clientId) > 24:")
m("c20-bandwith-zero-factor", "C20", P, "        if factor <= 0:\n", "        if factor < 0:\n")
m("c20-password-without-user-ok", "C20", B, "        if request.username is None and request.password is not None:\n            raise MissingUserError()\n", "")
m("c20-connect-bad-args-change-state", "C20", B, "        try:\n            self._checkConnect(request)\n            pdu = request.encode()\n        except ValueError as e:\n            return defer.fail(e)\n", "        try:\n            self._checkConnect(request)\n            pdu = request.encode()\n        except ValueError as e:\n            self._cleanStart = request.cleanStart\n            self._version = request.version\n            self._initialT = 1\n            return defer.fail(e)\n")

# ---- hand-made reversals of the three fix commits that do not revert cleanly
m("revert-1016cd6-state-idle-after-cleanup", "C14 C18", B,
  "        # back to IDLE first: errbacks fired by the clean-up below may call the API\n        self.state = self.IDLE\n        self.doConnectionLost(reason)\n",
  "        self.doConnectionLost(reason)\n        self.state = self.IDLE\n")
m("revert-fe8d0d3-preconnack-publish-resumed-or-purged", "C12 C13 C08", P,
  "            if request.alarm is None:   # not what was already sent while waiting for CONNACK\n                self._retryPublish(request, dup=True)\n",
  "            self._retryPublish(request, dup=True)\n",
  more=[(P, "            self._purgeSession(MQTTSessionCleared(), inherited=True)\n", "            self._purgeSession(MQTTSessionCleared())\n")])
m("revert-a553694-subs-stranded-in-persistent-session", "C07", P,
  "        # Then, invoke publish errbacks if we do not persist state\n        if self._cleanStart:\n            self._purgeSession(reason)\n",
  "        # Then, invoke publish errbacks if we do not persist state\n        if self._cleanStart:\n            self._purgeSession(reason)\n        return\n",
  more=[(P, "        # SUBSCRIBE/UNSUBSCRIBE requests are not part of the session state:\n        # nothing will resend them, so their errbacks are invoked anyway\n",
         "        if not self._cleanStart:\n            return\n")])
m("revert-15b3a70-repeated-pubrel-unanswered", "C06", P,
  "        # a repeated PUBREL must be answered as well [MQTT-4.3.3-2]\n        reply = PUBCOMP()\n",
  "        if msg is None:\n            return\n        reply = PUBCOMP()\n")

# ---- rewritten after the later fix commits changed the surrounding text
m("c05-pubcomp-keeps-entry", "C05 C13", P, "            reply.alarm.cancel()\n            del self.factory.windowPubRelease[self.addr][reply.msgId]\n", "            reply.alarm.cancel()\n")
m("c05-stray-puback-pops-oldest", "C05", P, "             request = self.factory.windowPublish[self.addr][response.msgId]\n             if request.qos != 1:",
  "             w = self.factory.windowPublish[self.addr]\n             if response.msgId not in w and w: response.msgId = next(iter(w))\n             request = self.factory.windowPublish[self.addr][response.msgId]\n             if request.qos != 1:")
m("c05-callback-value-none", "C05", P, "            request.deferred.callback(request.msgId)\n\n    # ----", "            request.deferred.callback(None)\n\n    # ----")
m("c08-pubrel-retry-drops-after-3", "C08 C13", P, "timeout=\"timeout\")\n        self._retryRelease(reply, dup=True)\n", "timeout=\"timeout\")\n        reply.retries += 1\n        if reply.retries < 4: self._retryRelease(reply, dup=True)\n")
m("c13-pubcomp-no-cancel", "C13", P, "            reply.alarm.cancel()\n            del self.factory.windowPubRelease[self.addr][reply.msgId]\n", "            del self.factory.windowPubRelease[self.addr][reply.msgId]\n")
m("c16-stray-pubrec-no-guard", "C16", P, "                raise KeyError(response.msgId)\n        except KeyError as e:\n            log.debug(\"<== {packet:7} (id={response.msgId:04x}) already handled\", packet=\"PUBREC\", response=response)\n",
  "                raise KeyError(response.msgId)\n        except IndexError as e:\n            log.debug(\"<== {packet:7} (id={response.msgId:04x}) already handled\", packet=\"PUBREC\", response=response)\n")
m("c05-puback-ignores-qos", "C05 C16", P, "             if request.qos != 1:    # a QoS 2 message is acknowledged by PUBREC, never by PUBACK\n                 raise KeyError(response.msgId)\n", "")
m("c18-deferred-before-refill", "C18", P, "            del self.factory.windowPublish[self.addr][response.msgId]\n            self._refillPublish(dup=False)\n            # the callback comes last: it may call back into the API (e.g. disconnect())\n            request.deferred.callback(request.msgId)\n",
  "            del self.factory.windowPublish[self.addr][response.msgId]\n            request.deferred.callback(request.msgId)\n            self._refillPublish(dup=False)\n")
m("c13-ping-overwrites-pending-alarm", "C13 C15", B, "        if self._pingReq.alarm is not None:\n            # an earlier PINGREQ is still unanswered", "        if False:\n            # an earlier PINGREQ is still unanswered")
m("rev-3b305fe-ping-aborts-when-earlier-unanswered", "C15", B, "            # runs just before the alarm due at the same moment): its deadline stands, do not lose track of it\n            return\n", "            # runs just before the alarm due at the same moment): its deadline stands, do not lose track of it\n            self._pingReq.alarm.cancel()\n            doPingError()\n            return\n")


# Mutants that turned out to be equivalent with respect to the statements (kept for the record, not run)
EQUIVALENT = {
 "c02-string-limit-off-by-one": "a 65536-byte string still raises ValueError: the bytearray rejects the length byte 256",
 "c02-suback-decode-flag": "differs only for reserved SUBACK return codes (not 0, 1, 2, 0x80): outside the statement",
 "c02-connack-session-bit": "differs only when a reserved CONNACK flag bit is set: a pedantic malformation, don't-care",
 "c03-min-header-1": "with one byte buffered the completeness test fails anyway and the loop waits",
 "c03-lenlen-scan-short": "the following incomplete-length test re-examines the byte the shortened scan skipped",
 "c11-new-protocol-inherits-session-mode": "connect() overwrites the inherited mode; a protocol lost before connect() is a documented don't-care",
 "c15-first-ping-after-k": "first PINGREQ k seconds after CONNACK still satisfies 'at least every k seconds'",
 "c17-counter-reset-by-buildprotocol": "makeId skips identifiers still in use, so restarting the counter cannot collide",
 "c08-linear-k-shrinks": "since fix 32 the delay is clamped to the previous one: a shrinking K gives constant gaps, which the statement allows",
 "c18-deferred-before-refill": "since fix 29 the refill checks the state itself: a disconnect() from the callback makes it a no-op, and a publish() from the callback still goes behind what is held back",
 "c20-keepalive-65536": "encode16Int(65536) raises ValueError inside the same try block: still rejected atomically",
}
for _n in EQUIVALENT:
    M.pop(_n, None)


# ---- Behaviour-preserving refactors: every check must stay silent on them (exit 0, or 2 when a
# rule can no longer be evaluated) -- never exit 1.  Run with: selftest/run_mutants.py --refactors
REFACTORS = {}


def rf(name, edits):
    REFACTORS[name] = (["C%02d" % i for i in range(1, 21)], edits)


rf("rf-write-then-arm-retry-timers", [
    (P, "        if request.interval:    # Handle timeouts for QoS 1 and 2\n            request.alarm = self.callLater(request.interval(len(request.encoded)), self._publishError, request)\n", ""),
    (P, "            log.debug(\"==> {packet:7} (id={request.msgId:04x} qos={request.qos} dup={dup} retain={request.retain} topic={request.topic})\", packet=\"PUBLISH\", request=request, dup=dup)\n        self.transport.write(str(request.encoded) if PY2 else bytes(request.encoded))\n",
        "            log.debug(\"==> {packet:7} (id={request.msgId:04x} qos={request.qos} dup={dup} retain={request.retain} topic={request.topic})\", packet=\"PUBLISH\", request=request, dup=dup)\n        self.transport.write(str(request.encoded) if PY2 else bytes(request.encoded))\n        if request.interval:    # Handle timeouts for QoS 1 and 2\n            request.alarm = self.callLater(request.interval(len(request.encoded)), self._publishError, request)\n"),
    (P, "        reply.alarm = self.callLater(reply.interval(), self._pubrelError, reply)\n        log.debug(\"==> {packet:7} (id={reply.msgId:04x} dup={dup})\", packet=\"PUBREL\", reply=reply, dup=dup)\n        self.transport.write(str(reply.encoded) if PY2 else bytes(reply.encoded))\n",
        "        log.debug(\"==> {packet:7} (id={reply.msgId:04x} dup={dup})\", packet=\"PUBREL\", reply=reply, dup=dup)\n        self.transport.write(str(reply.encoded) if PY2 else bytes(reply.encoded))\n        reply.alarm = self.callLater(reply.interval(), self._pubrelError, reply)\n"),
    (P, "        request.alarm = self.callLater(interval, self._subscribeError, request)\n        log.debug(\"==> {packet:7} (id={request.msgId:04x} dup={dup})\", packet=\"SUBSCRIBE\", request=request, dup=dup)\n        self.transport.write(str(request.encoded) if PY2 else bytes(request.encoded))\n",
        "        log.debug(\"==> {packet:7} (id={request.msgId:04x} dup={dup})\", packet=\"SUBSCRIBE\", request=request, dup=dup)\n        self.transport.write(str(request.encoded) if PY2 else bytes(request.encoded))\n        request.alarm = self.callLater(interval, self._subscribeError, request)\n"),
    (P, "        request.alarm = self.callLater(interval, self._unsubscribeError, request)\n        log.debug(\"==> {packet:7} (id={request.msgId:04x} dup={dup})\", packet=\"UNSUBSCRIBE\", request=request, dup=dup)\n        self.transport.write(str(request.encoded) if PY2 else bytes(request.encoded))\n",
        "        log.debug(\"==> {packet:7} (id={request.msgId:04x} dup={dup})\", packet=\"UNSUBSCRIBE\", request=request, dup=dup)\n        self.transport.write(str(request.encoded) if PY2 else bytes(request.encoded))\n        request.alarm = self.callLater(interval, self._unsubscribeError, request)\n"),
])
rf("rf-suback-cancel-before-delete", [
    (P, "            del self.factory.windowSubscribe[self.addr][response.msgId]\n            request.alarm.cancel()\n", "            request.alarm.cancel()\n            del self.factory.windowSubscribe[self.addr][response.msgId]\n"),
    (P, "            del self.factory.windowUnsubscribe[self.addr][response.msgId]\n            request.alarm.cancel()\n", "            request.alarm.cancel()\n            del self.factory.windowUnsubscribe[self.addr][response.msgId]\n"),
])
rf("rf-ordered-dict-windows", [
    (F, "from collections import deque\n", "from collections import deque, OrderedDict\n"),
    (F, "        v = self.windowPublish.get(addr, dict() )\n", "        v = self.windowPublish.get(addr, OrderedDict() )\n"),
    (F, "        v = self.windowPubRelease.get(addr, dict() )\n", "        v = self.windowPubRelease.get(addr, OrderedDict() )\n"),
])
rf("rf-closing-cancels-alarms-before-keepalive", [
    (B, "        self.state = self.CLOSING\n        self._stopKeepalive()\n        self.doDisconnected()\n", "        self.state = self.CLOSING\n        self.doDisconnected()\n        self._stopKeepalive()\n"),
])
rf("rf-inline-makeid-and-rename-handlers", [
    (P, "self._publishError, request)", "self._onPublishTimeout, request)"),
    (P, "    def _publishError(self, request):", "    def _onPublishTimeout(self, request):"),
    (B, "        def doPingError():", "        def pingTimedOut():"),
    (B, "self.callLater(self._pingReq.keepalive, doPingError)", "self.callLater(self._pingReq.keepalive, pingTimedOut)"),
])
rf("rf-pdu-encode-via-join", [
    (D, "    encoded = bytearray(2)\n    encoded.extend(bytearray(string, encoding='utf-8'))\n    l = len(encoded)-2\n    if(l > 65535):\n        raise StringValueError(l)\n    encoded[0] = l >> 8\n    encoded[1] = l & 0xFF\n    return encoded\n",
        "    data = bytearray(string, encoding='utf-8')     # (not string.encode(): a bytes argument must keep raising TypeError)\n    l = len(data)\n    if(l > 65535):\n        raise StringValueError(l)\n    return bytearray((l >> 8, l & 0xFF)) + data\n"),
])
rf("rf-reactor-calllater-direct", [
    (P, "        request.alarm = self.callLater(interval, self._subscribeError, request)\n", "        request.alarm = reactor.callLater(interval, self._subscribeError, request)\n"),
    (P, "        reply.alarm = self.callLater(reply.interval(), self._pubrelError, reply)\n", "        reply.alarm = reactor.callLater(reply.interval(), self._pubrelError, reply)\n"),
])
rf("rf-buildprotocol-setdefault", [
    (F, "        v = self.queuePublishTx.get(addr, deque())\n        self.queuePublishTx[addr] = v\n", "        self.queuePublishTx.setdefault(addr, deque())\n"),
    (F, "        v = self.windowPubRx.get(addr, dict())\n        self.windowPubRx[addr] = v\n", "        self.windowPubRx.setdefault(addr, {})\n"),
])
rf("rf-refill-explicit-loop", [
    (P, "        while queue and (not queue[0].msgId or len(self.factory.windowPublish[cnx]) < self._window):\n            request = queue.popleft()\n",
        "        while True:\n            if not queue:\n                break\n            head = queue[0]\n            if head.msgId and len(self.factory.windowPublish[cnx]) >= self._window:\n                break\n            request = queue.popleft()\n"),
])
rf("rf-keepalive-calllater-chain", [
    (B, "                self._pingReq.timer     = task.LoopingCall(self.ping)\n                self._pingReq.timer.start(request.keepalive)\n",
        "                self._pingReq.timer     = _Ticker(self, request.keepalive)\n                self._pingReq.timer.start()\n"),
    (B, "log = Logger(namespace='mqtt')\n\n\n# ---------------------------------------\n# Base State Class",
        "log = Logger(namespace='mqtt')\n\n\nclass _Ticker(object):\n    '''Calls protocol.ping() now and then every period seconds (drift-free)'''\n    def __init__(self, protocol, period):\n        self.protocol, self.period, self.call, self.n = protocol, period, None, 0\n    def start(self):\n        self.t0 = reactor.seconds()\n        self._tick()\n    def _tick(self):\n        self.n += 1\n        self.call = self.protocol.callLater(max(0, self.t0 + self.n*self.period - reactor.seconds()), self._tick)\n        self.protocol.ping()\n    def stop(self):\n        if self.call is not None and self.call.active():\n            self.call.cancel()\n        self.call = None\n\n\n# ---------------------------------------\n# Base State Class"),
])


# ---- third batch: subtler faults for the properties with few surviving-the-suite mutants
m("c03-stale-length-when-more-buffered", "C03", B, "                self._buffer = self._buffer[length + lenLen + 1:]\n                length = None\n",
  "                self._buffer = self._buffer[length + lenLen + 1:]\n                if len(self._buffer) < 2 or self._buffer[0] >> 4 != 3: length = None\n")
m("c03-large-chunk-replaces-partial", "C03", B, "        self._buffer.extend(data)\n\n        length = None\n", "        if len(data) >= 16384:\n            self._buffer = bytearray(data)\n        else:\n            self._buffer.extend(data)\n\n        length = None\n")
m("c05-success-on-pubrec-after-retries", "C05 C09", P, "            reply.retries  = request.retries        # and the retry count\n", "            reply.retries  = request.retries        # and the retry count\n            if reply.retries >= 2 and not reply.deferred.called: reply.deferred.callback(reply.msgId)\n")
m("c09-pubcomp-accepted-before-pubrec", "C09 C05", P, "            reply = self.factory.windowPubRelease[self.addr][response.msgId]\n        except KeyError as e:\n",
  "            if response.msgId not in self.factory.windowPubRelease[self.addr] and getattr(self.factory.windowPublish[self.addr].get(response.msgId), 'qos', 0) == 2:\n                early = self.factory.windowPublish[self.addr].pop(response.msgId)\n                self.factory.windowPubRelease[self.addr][response.msgId] = early\n            reply = self.factory.windowPubRelease[self.addr][response.msgId]\n        except KeyError as e:\n")
m("c10-refill-stops-after-qos0", "C10", P, "            self._retryPublish(request, dup)\n\n\n    def _retryPublish", "            self._retryPublish(request, dup)\n            if not request.msgId:\n                break\n\n\n    def _retryPublish")
m("c10-shrinking-window-drops-queue-tail", "C10 C05", P, "    def setBandwith(self, bandwith, factor=2):\n", "    def setWindowSize(self, n):\n        MQTTBaseProtocol.setWindowSize(self, n)\n        queue = self.factory.queuePublishTx.get(self.addr)\n        while queue is not None and len(queue) > 4 * n:\n            queue.pop()\n\n    def setBandwith(self, bandwith, factor=2):\n")
m("c11-purge-spares-requests-with-retries", "C11", P, "            del self.factory.windowPublish[self.addr][k]\n            if request.alarm is not None:   # sent again on this connection before the purge\n",
  "            if not inherited and request.retries >= 2:\n                continue\n            del self.factory.windowPublish[self.addr][k]\n            if request.alarm is not None:   # sent again on this connection before the purge\n")
m("c12-resume-skips-requests-with-retries", "C12", P, "            if request.alarm is None:   # not what was already sent while waiting for CONNACK\n                self._retryPublish(request, dup=True)\n",
  "            if request.alarm is None and request.retries < 3:   # not what was already sent while waiting for CONNACK\n                self._retryPublish(request, dup=True)\n")
m("c06-qos2-redelivered-after-reconnect", "C06", P, "            del self.factory.windowPubRx[self.addr][response.msgId]\n", "            if msg.dup is False or msg.retain is False:\n                del self.factory.windowPubRx[self.addr][response.msgId]\n")
m("c07-suback-value-truncated-to-request", "C07", P, "            request.deferred.callback(response.granted)\n", "            request.deferred.callback(response.granted[:len(request.topics)])\n")
m("c15-abort-skipped-when-window-busy", "C15", B, "            self._pingReq.alarm = None    # it has just fired: nothing left to cancel\n            self.transport.abortConnection()\n",
  "            self._pingReq.alarm = None    # it has just fired: nothing left to cancel\n            if getattr(self, '_window', 1) < 8:\n                self.transport.abortConnection()\n")
m("c16-suback-id-out-of-window-raises", "C16", P, "            request.deferred.callback(response.granted)\n", "            request.deferred.callback(response.granted if response.granted else response.granted[0])\n")
rf("rf-resume-subscriptions-in-persistent-sessions", [
    # an allowed alternative for C07: pending SUBSCRIBE/UNSUBSCRIBE of a persistent session are sent
    # again on the next connection instead of being failed at the loss
    (P, "        for k in list(self.factory.windowSubscribe[self.addr]):\n            request = self.factory.windowSubscribe[self.addr][k]\n            del self.factory.windowSubscribe[self.addr][k]\n            request.deferred.errback(reason)\n        for k in list(self.factory.windowUnsubscribe[self.addr]):\n            request = self.factory.windowUnsubscribe[self.addr][k]\n            del self.factory.windowUnsubscribe[self.addr][k]\n            request.deferred.errback(reason)\n        # Then, invoke publish errbacks if we do not persist state\n",
        "        if self._cleanStart:\n            self._failSubscriptions(reason)\n        # Then, invoke publish errbacks if we do not persist state\n"),
    (P, "    def doDisconnected(self):\n        '''\n        No retransmissions after DISCONNECT.\n        '''\n",
        "    def _failSubscriptions(self, reason):\n        for k in list(self.factory.windowSubscribe[self.addr]):\n            request = self.factory.windowSubscribe[self.addr][k]\n            del self.factory.windowSubscribe[self.addr][k]\n            if request.alarm is not None:\n                request.alarm.cancel()\n                request.alarm = None\n            request.deferred.errback(reason)\n        for k in list(self.factory.windowUnsubscribe[self.addr]):\n            request = self.factory.windowUnsubscribe[self.addr][k]\n            del self.factory.windowUnsubscribe[self.addr][k]\n            if request.alarm is not None:\n                request.alarm.cancel()\n                request.alarm = None\n            request.deferred.errback(reason)\n\n\n    def doDisconnected(self):\n        '''\n        No retransmissions after DISCONNECT.\n        '''\n"),
    (P, "        if self._cleanStart:\n            self._purgeSession(MQTTSessionCleared(), inherited=True)\n        else:\n            self._syncSession()\n",
        "        if self._cleanStart:\n            self._purgeSession(MQTTSessionCleared(), inherited=True)\n            for w in (self.factory.windowSubscribe[self.addr], self.factory.windowUnsubscribe[self.addr]):\n                for k in list(w):\n                    if w[k].alarm is None:\n                        w.pop(k).deferred.errback(MQTTSessionCleared())\n        else:\n            self._syncSession()\n            for request in list(self.factory.windowSubscribe[self.addr].values()):\n                if request.alarm is None:\n                    self._retrySubscribe(request, True)\n            for request in list(self.factory.windowUnsubscribe[self.addr].values()):\n                if request.alarm is None:\n                    self._retryUnsubscribe(request, True)\n"),
    (P, "        if self._version == v31:\n            request.encoded[0] |=  (dup << 3)   # set the dup flag\n        interval = request.interval() + 0.25*len(self.factory.windowSubscribe[self.addr])\n",
        "        if self._version == v31:\n            request.encoded[0] |=  (dup << 3)   # set the dup flag\n        else:\n            request.encoded[0] &= 0xF7\n        interval = request.interval() + 0.25*len(self.factory.windowSubscribe[self.addr])\n"),
    (P, "        if self._version == v31:\n            request.encoded[0] |=  (dup << 3)   # set the dup flag\n        interval = request.interval() + 0.25*len(self.factory.windowUnsubscribe[self.addr])\n",
        "        if self._version == v31:\n            request.encoded[0] |=  (dup << 3)   # set the dup flag\n        else:\n            request.encoded[0] &= 0xF7\n        interval = request.interval() + 0.25*len(self.factory.windowUnsubscribe[self.addr])\n"),
])
rf("rf-qos2-delivered-on-publish", [
    # allowed alternative for C06: deliver a QoS 2 message when its PUBLISH arrives (once), not at PUBREL
    (P, "            self.factory.windowPubRx[self.addr][response.msgId] = response\n            reply = PUBREC()\n            reply.msgId = response.msgId\n            log.debug(\"<== {packet:7} (id={response.msgId:04x})\" , packet=\"PUBREC\", response=response)\n            self.transport.write(reply.encode())\n",
        "            first = response.msgId not in self.factory.windowPubRx[self.addr]\n            self.factory.windowPubRx[self.addr][response.msgId] = response\n            reply = PUBREC()\n            reply.msgId = response.msgId\n            log.debug(\"<== {packet:7} (id={response.msgId:04x})\" , packet=\"PUBREC\", response=response)\n            self.transport.write(reply.encode())\n            if first:\n                self._deliver(response)\n"),
    (P, "        # the callback comes last: it may call back into the API (e.g. disconnect())\n        if msg is not None:\n            self._deliver(msg)\n", ""),
    # (with delivery at PUBLISH time the receive window has to be emptied with the session, or a new
    #  message reusing an abandoned identifier would be taken for a repeat and never delivered)
    (P, "            self._purgeSession(MQTTSessionCleared(), inherited=True)\n", "            self._purgeSession(MQTTSessionCleared(), inherited=True)\n            self.factory.windowPubRx[self.addr].clear()\n"),
    (P, "        if self._cleanStart:\n            self._purgeSession(reason)\n", "        if self._cleanStart:\n            self._purgeSession(reason)\n            self.factory.windowPubRx[self.addr].clear()\n"),
])
rf("rf-handshake-loss-fails-connect-at-once", [
    # allowed alternative for C04: a loss in mid-handshake fails connect() with the reason at once
    (B, "        self._stopKeepalive()\n        # back to IDLE first", "        self._stopKeepalive()\n        pending, self.connReq = getattr(self, 'connReq', None), None\n        if pending is not None and pending.deferred is not None:\n            if pending.alarm.active():\n                pending.alarm.cancel()\n            pending.deferred.errback(reason)\n        # back to IDLE first"),
])
rf("rf-publish-while-connecting-is-held-until-connack", [
    # allowed alternative for C14/C10: a publish() made before CONNACK is accepted and queued, and goes out at CONNACK
    (P, "        request.deferred.msgId = request.msgId\n        self._refillPublish(dup=False)\n        return  request.deferred \n",
        "        request.deferred.msgId = request.msgId\n        if self.state is not self.CONNECTING:\n            self._refillPublish(dup=False)\n        return  request.deferred \n"),
])
rf("rf-random-packet-identifiers", [
    # allowed alternative for C17: identifiers drawn at random among those not in use
    (F, "from collections import deque\n", "from collections import deque\nimport random as _random\n"),
    (F, "        for _ in range(65535):\n            self.id = (self.id + 1) % 65536\n            self.id = self.id or 1   # avoid id 0\n            if not self._idInUse(self.id):  # after a wrap-around old requests may still hold it\n                break\n        return self.id\n",
        "        rng = self.__dict__.setdefault('_rng', _random.Random(20260927))\n        for _ in range(100000):\n            self.id = rng.randint(1, 65535)\n            if not self._idInUse(self.id):\n                break\n        return self.id\n"),
])
