#!/venv/bin/python
"""Sensitivity self-test: apply each seeded fault to a scratch copy of /repo,
make sure the repository's own 85 tests still pass on it, then require the
quick check of every owning property to report a violation.

usage: selftest/run_mutants.py [--tier quick] [--jobs 4] [--all-props] [name-substring ...]
Writes selftest/kill_matrix.json.  Scratch copies live under /tmp/mqtt-mut-*
and are removed as soon as a mutant is done."""
import concurrent.futures
import glob
import json
import os
import re
import shutil
import subprocess
import sys
import tempfile
import time

HERE = os.path.dirname(os.path.abspath(__file__))
VERIF = os.path.dirname(HERE)
sys.path.insert(0, HERE)
import mutants  # noqa: E402

ALL = ["C%02d" % i for i in range(1, 21)]
BASE = json.load(open("/root/.vp/BASELINE.json"))
STABLE = set(BASE["stable_pass"])


def make_copy(name):
    d = tempfile.mkdtemp(prefix="mqtt-mut-%s-" % re.sub(r"[^A-Za-z0-9]+", "-", name)[:40], dir="/tmp")
    subprocess.run(["rsync", "-a", "--exclude", ".git", "--exclude", "__pycache__", "--exclude", "*.egg-info", "/repo/", d + "/"], check=True)
    return d


def apply_edits(d, edits):
    for (file, old, new) in edits:
        p = os.path.join(d, "src", "mqtt", file)
        s = open(p).read()
        if s.count(old) != 1:
            return "edit does not apply (%d matches) in %s" % (s.count(old), file)
        open(p, "w").write(s.replace(old, new))
    return None


def apply_diff(d, path):
    r = subprocess.run(["patch", "-p1", "-d", d, "-i", path, "--no-backup-if-mismatch", "-s"], capture_output=True, text=True)
    return None if r.returncode == 0 else "patch failed: " + (r.stdout + r.stderr)[-300:]


def baseline(d):
    """-> (ok, detail): the 85 stable tests pass on the copy."""
    xml = os.path.join(d, "junit.xml")
    env = dict(os.environ, PYTHONPATH=os.path.join(d, "src"), PYTHONDONTWRITEBYTECODE="1")
    r = subprocess.run(["/venv/bin/python", "-m", "pytest", "-q", "-p", "no:cacheprovider", "--timeout=300",
                        "--continue-on-collection-errors", "--junitxml=" + xml], cwd=d, env=env, capture_output=True, text=True)
    try:
        import xml.etree.ElementTree as ET
        passed = set()
        for tc in ET.parse(xml).getroot().iter("testcase"):
            if not list(tc):
                passed.add("%s::%s" % (tc.get("classname"), tc.get("name")))
        missing = sorted(STABLE - passed)
        # ids in BASELINE look like src.mqtt...Class::test
        if missing and all(not m.startswith("src.") for m in passed):
            missing = sorted(STABLE - set("src." + p for p in passed))
        return (not missing), ("%d baseline tests no longer pass, e.g. %s" % (len(missing), missing[:2]) if missing else "85 pass")
    except Exception as e:
        return False, "could not read junit: %r / %s" % (e, r.stdout[-200:])


def run_check(d, prop, tier, shards):
    out = tempfile.mkdtemp(prefix="ev-", dir=d)
    env = dict(os.environ, VERIF_REPO_SRC=os.path.join(d, "src"), VERIF_EVIDENCE_DIR=out, VERIF_REPLAY_DIR=out,
               VERIF_WORK_DIR=out, VERIF_SHARDS=str(shards))
    t0 = time.time()
    try:
        r = subprocess.run([os.path.join(VERIF, "bin", "check"), prop, "--tier", tier], env=env, capture_output=True, text=True, timeout=1800)
        rc, text = r.returncode, r.stdout + r.stderr
    except subprocess.TimeoutExpired:
        rc, text = 99, "timeout"
    sigs = re.findall(r"signature=(\S+)", text)
    return {"rc": rc, "wall": round(time.time() - t0, 1), "signatures": sigs[:6],
            "tail": "" if rc == 1 else text[-300:]}


def one(name, props, edits, diff, tier, shards, all_props, require_baseline=True):
    d = make_copy(name)
    res = {"name": name, "owners": props}
    try:
        err = apply_diff(d, diff) if diff else apply_edits(d, edits)
        if err:
            res["status"] = "invalid"
            res["detail"] = err
            return res
        ok, detail = baseline(d)
        res["baseline"] = detail
        if not ok and require_baseline:
            res["status"] = "caught-by-suite"
            return res
        res["checks"] = {}
        killed = []
        todo = list(props) + ([p for p in ALL if p not in props] if all_props else [])
        for p in todo:
            res["checks"][p] = run_check(d, p, tier, shards)
            if res["checks"][p]["rc"] == 1:
                killed.append(p)
        res["killed_by"] = killed
        owners_killed = [p for p in props if p in killed]
        res["status"] = "killed" if len(owners_killed) == len(props) else ("partly-killed" if killed else "SURVIVED")
        return res
    finally:
        shutil.rmtree(d, ignore_errors=True)


def main():
    args = sys.argv[1:]
    tier, jobs, all_props = "quick", 4, False
    refactors = False
    pats = []
    while args:
        a = args.pop(0)
        if a == "--tier":
            tier = args.pop(0)
        elif a == "--jobs":
            jobs = int(args.pop(0))
        elif a == "--all-props":
            all_props = True
        elif a == "--refactors":
            refactors = True
        else:
            pats.append(a)
    work = []
    ext = [a for a in pats if a.endswith(".diff") and os.path.exists(a)]
    if ext:
        # external patches: selftest/run_mutants.py /path/patch.diff C05,C10 [...]
        pats2 = [a for a in pats if a not in ext]
        props = pats2[0].split(",") if pats2 else ALL
        results = []
        for path in ext:
            r = one(os.path.basename(os.path.dirname(path)) + "-" + os.path.basename(path), props, None, path, tier, 16, False)
            ck = " ".join("%s:%s" % (p, c["rc"]) for p, c in r.get("checks", {}).items())
            print("%-16s %s %s %s" % (r["status"], path, ck, r.get("detail", "") or r.get("baseline", "")))
            for p, c in r.get("checks", {}).items():
                if c["rc"] == 1:
                    print("    %s: %s" % (p, ", ".join(c["signatures"][:4])))
        return 0
    if refactors:
        bad = 0
        for name, (props, edits) in mutants.REFACTORS.items():
            if pats and not any(p in name for p in pats):
                continue
            r = one(name, props, edits, None, tier, 16, False, require_baseline=False)
            alarms = [p for p, c in r.get("checks", {}).items() if c["rc"] == 1]
            other = [(p, c["rc"]) for p, c in r.get("checks", {}).items() if c["rc"] not in (0, 1)]
            print("%-10s %-48s baseline: %s  alarms: %s  non-verdicts: %s" % ("SILENT" if not alarms and r.get("checks") else "ALARM/ERR", name, r.get("baseline") or r.get("detail"), alarms, other))
            for p in alarms:
                print("    %s: %s" % (p, r["checks"][p]["signatures"][:3]))
            bad += len(alarms)
        # refactors and alternative implementations written by independent sub-agents (all 20 checks each)
        for path in sorted(glob.glob(os.path.join(HERE, "refactors", "*", "patch.diff"))):
            name = "agent-" + os.path.basename(os.path.dirname(path))
            if pats and not any(p in name for p in pats):
                continue
            r = one(name, ALL, None, path, tier, 16, False, require_baseline=True)
            alarms = [p for p, c in r.get("checks", {}).items() if c["rc"] == 1]
            other = [(p, c["rc"]) for p, c in r.get("checks", {}).items() if c["rc"] not in (0, 1)]
            print("%-10s %-48s baseline: %s  alarms: %s  non-verdicts: %s" % ("SILENT" if not alarms and r.get("checks") else "ALARM/ERR", name, r.get("baseline") or r.get("detail"), alarms, other), flush=True)
            for p in alarms:
                print("    %s: %s" % (p, r["checks"][p]["signatures"][:3]))
            bad += len(alarms)
        return 1 if bad else 0
    for name, (props, edits) in mutants.M.items():
        work.append((name, props, edits, None))
    owners = json.load(open(os.path.join(HERE, "revert_owners.json"))) if os.path.exists(os.path.join(HERE, "revert_owners.json")) else {}
    for path in sorted(glob.glob(os.path.join(HERE, "mutants", "*.diff"))):
        name = os.path.basename(path)[:-5]
        key = name.split("-")[1] if name.startswith("revert-") else name
        work.append((name, owners.get(key, owners.get(name, [])), None, path))
    if pats:
        work = [w for w in work if any(p in w[0] for p in pats)]
    shards = max(2, 16 // jobs)
    results = []
    t0 = time.time()
    with concurrent.futures.ThreadPoolExecutor(max_workers=jobs) as ex:
        futs = [ex.submit(one, n, p, e, d, tier, shards, all_props) for (n, p, e, d) in work]
        for f in concurrent.futures.as_completed(futs):
            r = f.result()
            results.append(r)
            ck = " ".join("%s:%s" % (p, c["rc"]) for p, c in r.get("checks", {}).items())
            print("%-16s %-62s %s %s" % (r["status"], r["name"][:62], ck, r.get("detail", "") or ("" if r["status"] != "caught-by-suite" else r.get("baseline", ""))), flush=True)
    results.sort(key=lambda r: r["name"])
    summary = {}
    for r in results:
        summary[r["status"]] = summary.get(r["status"], 0) + 1
    out = {"tier": tier, "wall_s": round(time.time() - t0, 1), "summary": summary, "mutants": results}
    if not pats:
        with open(os.path.join(HERE, "kill_matrix.json"), "w") as f:
            json.dump(out, f, indent=1)
    print(summary, "in %.0fs" % (time.time() - t0))
    return 0


if __name__ == "__main__":
    sys.exit(main())
