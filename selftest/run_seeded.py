#!/venv/bin/python
"""Run every independent seeded change (seeded/S*/patch.diff) against the quick checks that are
supposed to catch it (meta.json: caught_by) and write selftest/seeded_matrix.json."""
import glob, json, os, subprocess, sys, re
HERE = os.path.dirname(os.path.abspath(__file__))
out = {}
only = set(sys.argv[1:])          # optional: ids to (re)run; their entries are merged into the existing matrix
if only and os.path.exists(os.path.join(HERE, "seeded_matrix.json")):
    out = json.load(open(os.path.join(HERE, "seeded_matrix.json")))
for d in sorted(glob.glob(os.path.join(os.path.dirname(HERE), "seeded", "S*"))):
    m = json.load(open(os.path.join(d, "meta.json")))
    if only and m["id"] not in only:
        continue
    if m.get("neutralised"):
        out[m["id"]] = {"property": m["property"], "checks": m["caught_by"], "status": "neutralised", "detail": "a later repair of the library made this change harmless (see meta.json)"}
        print(m["id"], "neutralised", flush=True)
        continue
    if m.get("tier") == "thorough":
        # caught in the thorough tier only: run just the thorough-tier family that catches it (selftest/thorough_family.py)
        r = subprocess.run([os.path.join(HERE, "thorough_family.py"), os.path.join(d, "patch.diff"), m["thorough_family"], ",".join(m["caught_by"])],
                           capture_output=True, text=True)
        status = "killed" if r.returncode == 1 else "SURVIVED"
        out[m["id"]] = {"property": m["property"], "checks": m["caught_by"], "status": status, "detail": r.stdout[-200:], "tier": "thorough"}
        print(m["id"], status, "(thorough-tier family %s)" % m["thorough_family"], flush=True)
        continue
    r = subprocess.run([os.path.join(HERE, "run_mutants.py"), os.path.join(d, "patch.diff"), ",".join(m["caught_by"])],
                       capture_output=True, text=True)
    line = [l for l in r.stdout.splitlines() if l.split() and l.split()[0] in ("killed", "partly-killed", "SURVIVED", "invalid", "caught-by-suite")]
    status = line[0].split()[0] if line else "?"
    out[m["id"]] = {"property": m["property"], "checks": m["caught_by"], "status": status,
                    "detail": line[0][:200] if line else r.stdout[-200:]}
    print(m["id"], status, line[0][60:160] if line else "", flush=True)
json.dump(out, open(os.path.join(HERE, "seeded_matrix.json"), "w"), indent=1)
print({s: sum(1 for v in out.values() if v["status"] == s) for s in set(v["status"] for v in out.values())})
