#!/bin/bash
# selftest/seed_sweep.sh [tier] [first-seed] [last-seed] [props...]
# Runs every check over a range of seeds from fresh processes; prints every run that is not "exit 0".
HERE="$(cd "$(dirname "${BASH_SOURCE[0]}")/.." && pwd)"
TIER="${1:-quick}"; A="${2:-0}"; B="${3:-7}"; shift 3 2>/dev/null
PROPS="$*"; [ -z "$PROPS" ] && PROPS="C01 C02 C03 C04 C05 C06 C07 C08 C09 C10 C11 C12 C13 C14 C15 C16 C17 C18 C19 C20"
OUT="$(mktemp -d /tmp/mqtt-sweep-XXXXXX)"
export VERIF_EVIDENCE_DIR="$OUT" VERIF_REPLAY_DIR="$HERE/replays" VERIF_WORK_DIR="$OUT"
bad=0
for p in $PROPS; do
  for s in $(seq "$A" "$B"); do
    out="$("$HERE/bin/check" "$p" --tier "$TIER" --seed "$s" 2>&1)"; rc=$?
    if [ $rc -ne 0 ]; then bad=$((bad+1)); echo "== $p seed=$s exit=$rc"; echo "$out" | grep -v KNOWN-FINDING | tail -4; fi
  done
  echo "$p done ($TIER seeds $A..$B)"
done
rm -rf "$OUT"
echo "non-zero exits: $bad"
