#!/venv/bin/python
"""Run one family of the thorough-tier shared long-run workloads through the monitors of the given
properties, against a scratch copy of /repo with a patch applied.
usage: thorough_family.py <patch.diff> <family> <C05,C10>   -> exit 1 if any monitor reports a violation, else 0."""
import os, shutil, subprocess, sys
HERE = os.path.dirname(os.path.abspath(__file__))
sys.path.insert(0, HERE)
import run_mutants as RM   # noqa: E402

INNER = r'''
import sys
sys.path.insert(0, %(lib)r)
from mqttverif.analysis import Analysis
from mqttverif import plans
plans.get("C04")
bad = 0
for case in plans.long_run_cases("thorough"):
    if case.family != %(family)r:
        continue
    w = case.execute()
    A = Analysis(w.trace, case.cfg)
    for pid in %(props)r:
        v, st = plans._REG[pid].monitor(A)
        for x in v[:3]:
            print("VIOLATION-IN-FAMILY", pid, x.sig, x.msg[:120])
        bad += len(v)
sys.exit(1 if bad else 0)
'''

def main():
    patch, family, props = sys.argv[1], sys.argv[2], sys.argv[3].split(",")
    d = RM.make_copy("thf")
    try:
        err = RM.apply_diff(d, patch)
        if err:
            print(err); return 3
        env = dict(os.environ, PYTHONHASHSEED="0", PYTHONPATH=os.pathsep.join([os.path.join(d, "src"), os.path.join(RM.VERIF, "lib"), os.path.join(RM.VERIF, ".deps")]))
        r = subprocess.run(["/venv/bin/python", "-c", INNER % {"lib": os.path.join(RM.VERIF, "lib"), "family": family, "props": props}], env=env, capture_output=True, text=True)
        print(r.stdout[-600:] + r.stderr[-300:])
        return r.returncode
    finally:
        shutil.rmtree(d, ignore_errors=True)

if __name__ == "__main__":
    sys.exit(main())
